(* Properties of the model of chord.weighted_accuracy (Model/ChordScore.v). *)
From Coq Require Import List Bool Arith ZArith QArith Lia Lqa.
From ME Require Import Model.Prelude Model.ChordScore.
Import ListNotations.
Open Scope Q_scope.

(* equality of outcomes up to == on the rational score *)
Definition xeq (a b : xval) : Prop :=
  match a, b with Fin x, Fin y => x == y | PInf, PInf | NInf, NInf | NaN, NaN => True | _, _ => False end.
Definition req (a b : res xval) : Prop :=
  match a, b with Ok x, Ok y => xeq x y | Raise e, Raise f => e = f | _, _ => False end.

(* independent statement of the weighted mean over comparable rows *)
Fixpoint cmp_num (c w : list Q) : Q :=
  match c, w with x :: c', y :: w' => (if Qle_bool 0 x then x * y else 0) + cmp_num c' w' | _, _ => 0 end.
Fixpoint cmp_den (c w : list Q) : Q :=
  match c, w with x :: c', y :: w' => (if Qle_bool 0 x then y else 0) + cmp_den c' w' | _, _ => 0 end.
Definition wa_num (rows : list (Q * Q)) : Q := qsum (map (fun r => fst r * snd r) rows).
Definition negw (x : Q) : bool := qltb x 0.

(* ---------- basic facts ---------- *)
Lemma qeqb_congr0 a b : (a == 0 <-> b == 0) -> qeqb a 0 = qeqb b 0.
Proof.
  intros H. unfold qeqb. destruct (Qeq_bool a 0) eqn:Ea, (Qeq_bool b 0) eqn:Eb; auto.
  - apply Qeq_bool_iff in Ea. apply H in Ea. apply Qeq_bool_iff in Ea. congruence.
  - apply Qeq_bool_iff in Eb. apply H in Eb. apply Qeq_bool_iff in Eb. congruence.
Qed.
Lemma qeqb_true a : qeqb a 0 = true <-> a == 0.
Proof. unfold qeqb. apply Qeq_bool_iff. Qed.
Lemma qeqb_false a : qeqb a 0 = false <-> ~ a == 0.
Proof. unfold qeqb. split; intros H. - intros E. apply Qeq_bool_iff in E. congruence.
  - destruct (Qeq_bool a 0) eqn:E; auto. apply Qeq_bool_iff in E. contradiction. Qed.
Lemma negw_false x : negw x = false <-> 0 <= x.
Proof. unfold negw, qltb. rewrite negb_false_iff. apply Qle_bool_iff. Qed.
Lemma negw_true x : negw x = true <-> x < 0.
Proof. unfold negw, qltb. rewrite negb_true_iff. split; intros H.
  - apply Qnot_le_lt. intros L. apply Qle_bool_iff in L. congruence.
  - destruct (Qle_bool 0 x) eqn:E; auto. apply Qle_bool_iff in E. lra. Qed.
Lemma noneg_forall w : existsb negw w = false <-> Forall (fun x => 0 <= x) w.
Proof.
  induction w as [|x w IH]; cbn [existsb]. - split; auto.
  - rewrite orb_false_iff, IH, negw_false. split. + intros [A B]. constructor; auto.
    + intros H. inversion H; auto.
Qed.
Lemma qsum_cons x a : qsum (x :: a) = x + qsum a.
Proof. reflexivity. Qed.
Lemma qsum_nil : qsum [] = 0.
Proof. reflexivity. Qed.
Lemma qsum_app a b : qsum (a ++ b) == qsum a + qsum b.
Proof. induction a as [|x a IH]; cbn [app]. - rewrite qsum_nil. lra. - rewrite !qsum_cons, IH. lra. Qed.
Lemma qsum_scale k w : qsum (map (Qmult k) w) == k * qsum w.
Proof. induction w as [|x w IH]; cbn [map]. - cbn. lra. - rewrite !qsum_cons, IH. lra. Qed.
Lemma qsum_nonneg w : Forall (fun x => 0 <= x) w -> 0 <= qsum w.
Proof. induction 1 as [|x w Hx _ IH]. - cbn. lra. - rewrite qsum_cons. lra. Qed.

Lemma wa_score_eq rows : wa_score rows == wa_num rows / wa_total rows.
Proof.
  unfold wa_score, wa_num. generalize (wa_total rows) as T. intros T.
  induction rows as [|[a b] rows IH]; cbn [map fst snd].
  - cbn. unfold Qdiv. lra.
  - rewrite !qsum_cons, IH. unfold Qdiv. ring.
Qed.
Lemma keep_total c w : wa_total (wa_keep c w) == cmp_den c w.
Proof.
  revert w. induction c as [|x c IH]; intros [|y w]; cbn [wa_keep cmp_den]; try (cbn; lra).
  unfold wa_valid. destruct (Qle_bool 0 x).
  - unfold wa_total in *. cbn [map snd]. rewrite qsum_cons, IH. lra.
  - rewrite IH. lra.
Qed.
Lemma keep_num c w : wa_num (wa_keep c w) == cmp_num c w.
Proof.
  revert w. induction c as [|x c IH]; intros [|y w]; cbn [wa_keep cmp_num]; try (cbn; lra).
  unfold wa_valid. destruct (Qle_bool 0 x).
  - unfold wa_num in *. cbn [map fst snd]. rewrite qsum_cons, IH. lra.
  - rewrite IH. lra.
Qed.
Lemma keep_app c1 w1 c2 w2 : length c1 = length w1 ->
  wa_keep (c1 ++ c2) (w1 ++ w2) = wa_keep c1 w1 ++ wa_keep c2 w2.
Proof.
  revert w1. induction c1 as [|x c1 IH]; intros [|y w1] L; try discriminate; cbn [app wa_keep]; auto.
  injection L as L. rewrite (IH _ L). destruct (wa_valid x); reflexivity.
Qed.
Lemma den_le_sum c w : Forall (fun x => 0 <= x) w -> 0 <= cmp_den c w <= qsum w.
Proof.
  revert w. induction c as [|x c IH]; intros [|y w] F; cbn [cmp_den]; try (cbn; lra).
  - apply qsum_nonneg in F. lra.
  - inversion F as [|? ? Hy F']; subst. specialize (IH _ F'). rewrite qsum_cons.
    destruct (Qle_bool 0 x); lra.
Qed.

(* the outcome is determined by six observations of the inputs *)
Lemma wa_q_congr c w c' w' :
  Nat.eqb (length w) (length c) = Nat.eqb (length w') (length c') ->
  existsb negw w = existsb negw w' ->
  (qsum w == 0 <-> qsum w' == 0) ->
  (wa_keep c w = [] <-> wa_keep c' w' = []) ->
  (wa_total (wa_keep c w) == 0 <-> wa_total (wa_keep c' w') == 0) ->
  (~ wa_total (wa_keep c w) == 0 -> wa_score (wa_keep c w) == wa_score (wa_keep c' w')) ->
  req (wa_q c w) (wa_q c' w').
Proof.
  intros HL HN HS HK HT HSc. unfold wa_q. fold negw. rewrite <- HL, <- HN, <- (qeqb_congr0 _ _ HS).
  destruct (negb (length w =? length c)%nat); [reflexivity|].
  destruct (existsb negw w); [reflexivity|].
  destruct (qeqb (qsum w) 0); [cbn; lra|].
  destruct (wa_keep c w) as [|r rows] eqn:E1, (wa_keep c' w') as [|r' rows'] eqn:E2.
  - cbn; lra.
  - exfalso. destruct HK as [HK _]. discriminate (HK eq_refl).
  - exfalso. destruct HK as [_ HK]. discriminate (HK eq_refl).
  - rewrite <- (qeqb_congr0 _ _ HT). destruct (qeqb (wa_total (r :: rows)) 0) eqn:E; [exact I|].
    cbn. apply HSc. apply qeqb_false. exact E.
Qed.

(* what an Ok (Fin s) outcome tells *)
Lemma wa_q_fin_inv c w s : wa_q c w = Ok (Fin s) ->
  length w = length c /\ Forall (fun x => 0 <= x) w /\
  (s = 0 \/ (~ cmp_den c w == 0 /\ s = wa_score (wa_keep c w))).
Proof.
  unfold wa_q. fold negw. intros H.
  destruct (length w =? length c)%nat eqn:EL; cbn [negb] in H; [|discriminate].
  destruct (existsb negw w) eqn:EN; [discriminate|].
  apply Nat.eqb_eq in EL. apply noneg_forall in EN. split; [exact EL|]. split; [exact EN|].
  destruct (qeqb (qsum w) 0). { left. congruence. }
  destruct (wa_keep c w) as [|r rows] eqn:EK. { left. congruence. }
  destruct (qeqb (wa_total (r :: rows)) 0) eqn:ET; [discriminate|].
  right. apply qeqb_false in ET. rewrite <- EK in ET. rewrite keep_total in ET. split; [exact ET|]. congruence.
Qed.

(* ---------- wa_is_weighted_mean ---------- *)
Theorem wa_is_weighted_mean_q : forall c w,
  length c = length w -> Forall (fun x => 0 <= x) w -> 0 < cmp_den c w ->
  exists s, wa_q c w = Ok (Fin s) /\ s == cmp_num c w / cmp_den c w.
Proof.
  intros c w HL HW HD. unfold wa_q. fold negw.
  rewrite HL, Nat.eqb_refl. cbn [negb].
  apply noneg_forall in HW as HN. rewrite HN.
  pose proof (den_le_sum c w HW) as B.
  assert (ES : qeqb (qsum w) 0 = false) by (apply qeqb_false; lra). rewrite ES.
  assert (ET : ~ wa_total (wa_keep c w) == 0) by (rewrite keep_total; lra).
  destruct (wa_keep c w) as [|r rows] eqn:EK. { exfalso. apply ET. reflexivity. }
  apply qeqb_false in ET as ET'. rewrite ET'. eexists. split; [reflexivity|].
  rewrite <- EK. rewrite wa_score_eq, keep_num, keep_total. reflexivity.
Qed.
Example wa_is_weighted_mean_sat :
  let c := [1; 0; -1] in let w := [1; 3; 100] in
  length c = length w /\ Forall (fun x => 0 <= x) w /\ 0 < cmp_den c w /\ cmp_num c w / cmp_den c w == 1 # 4.
Proof. cbn. repeat split; try lra. repeat constructor; lra. Qed.

(* ---------- wa_scale ---------- *)
Lemma keep_scale k c w : wa_keep c (map (Qmult k) w) = map (fun r => (fst r, k * snd r)) (wa_keep c w).
Proof.
  revert w. induction c as [|x c IH]; intros [|y w]; cbn [map wa_keep]; auto.
  rewrite IH. destruct (wa_valid x); reflexivity.
Qed.
Lemma den_scale k c w : cmp_den c (map (Qmult k) w) == k * cmp_den c w.
Proof.
  revert w. induction c as [|x c IH]; intros [|y w]; cbn [map cmp_den]; try lra.
  rewrite IH. destruct (Qle_bool 0 x); lra.
Qed.
Lemma num_scale k c w : cmp_num c (map (Qmult k) w) == k * cmp_num c w.
Proof.
  revert w. induction c as [|x c IH]; intros [|y w]; cbn [map cmp_num]; try lra.
  rewrite IH. destruct (Qle_bool 0 x); lra.
Qed.
Lemma negw_scale k x : 0 < k -> negw (k * x) = negw x.
Proof.
  intros Hk. destruct (negw x) eqn:E.
  - apply negw_true in E. apply negw_true. nra.
  - apply negw_false in E. apply negw_false. nra.
Qed.
Theorem wa_scale_q : forall k c w, 0 < k -> req (wa_q c (map (Qmult k) w)) (wa_q c w).
Proof.
  intros k c w Hk. apply wa_q_congr.
  - rewrite map_length. reflexivity.
  - induction w as [|y w IH]; cbn [map existsb]; auto. rewrite IH, negw_scale; auto.
  - rewrite qsum_scale. split; intros H; nra.
  - rewrite keep_scale. destruct (wa_keep c w); cbn [map]; split; intros H; auto; discriminate.
  - rewrite !keep_total, den_scale. split; intros H; nra.
  - intros HT. rewrite !wa_score_eq, !keep_num, !keep_total, num_scale, den_scale.
    rewrite keep_total, den_scale in HT.
    assert (HD : ~ cmp_den c w == 0) by (intros E; apply HT; rewrite E; lra).
    field. split; [exact HD|lra].
Qed.

(* ---------- wa_split_row ---------- *)
Lemma existsb_negw_app a b : existsb negw (a ++ b) = existsb negw a || existsb negw b.
Proof. apply existsb_app. Qed.
Theorem wa_split_row_q : forall c1 c2 w1 w2 x a b,
  length c1 = length w1 -> 0 <= a -> 0 <= b ->
  req (wa_q (c1 ++ x :: c2) (w1 ++ (a + b) :: w2)) (wa_q (c1 ++ x :: x :: c2) (w1 ++ a :: b :: w2)).
Proof.
  intros c1 c2 w1 w2 x a b HL Ha Hb.
  assert (HK : forall l l', wa_keep (c1 ++ l) (w1 ++ l') = wa_keep c1 w1 ++ wa_keep l l')
    by (intros; apply keep_app; exact HL).
  apply wa_q_congr.
  - rewrite !app_length. cbn [length].
    destruct (Nat.eqb_spec (length w1 + S (length w2)) (length c1 + S (length c2))),
             (Nat.eqb_spec (length w1 + S (S (length w2))) (length c1 + S (S (length c2)))); auto; lia.
  - rewrite !existsb_negw_app. cbn [existsb].
    assert (E1 : negw (a + b) = false) by (apply negw_false; lra).
    assert (E2 : negw a = false) by (apply negw_false; lra).
    assert (E3 : negw b = false) by (apply negw_false; lra).
    rewrite E1, E2, E3. reflexivity.
  - rewrite !qsum_app, !qsum_cons. split; intros H; lra.
  - rewrite !HK. cbn [wa_keep]. destruct (wa_valid x), (wa_keep c1 w1); cbn [app]; split; intros H; auto; discriminate.
  - rewrite !keep_total. rewrite <- !keep_total, !HK. unfold wa_total. rewrite !map_app, !qsum_app.
    cbn [wa_keep]. destruct (wa_valid x); cbn [map snd]; rewrite ?qsum_cons; split; intros H; lra.
  - intros _. rewrite !wa_score_eq.
    assert (EN : wa_num (wa_keep (c1 ++ x :: c2) (w1 ++ (a + b) :: w2)) ==
                 wa_num (wa_keep (c1 ++ x :: x :: c2) (w1 ++ a :: b :: w2))).
    { rewrite !HK. unfold wa_num. rewrite !map_app, !qsum_app. cbn [wa_keep].
      destruct (wa_valid x); cbn [map fst snd]; rewrite ?qsum_cons; lra. }
    assert (ET : wa_total (wa_keep (c1 ++ x :: c2) (w1 ++ (a + b) :: w2)) ==
                 wa_total (wa_keep (c1 ++ x :: x :: c2) (w1 ++ a :: b :: w2))).
    { rewrite !HK. unfold wa_total. rewrite !map_app, !qsum_app. cbn [wa_keep].
      destruct (wa_valid x); cbn [map fst snd]; rewrite ?qsum_cons; lra. }
    rewrite EN, ET. reflexivity.
Qed.

(* ---------- wa_ignores_ignored ---------- *)
Theorem wa_ignores_ignored_q : forall c1 c2 w1 w2 x a b,
  length c1 = length w1 -> x < 0 -> 0 <= a -> 0 <= b ->
  (qsum (w1 ++ a :: w2) == 0 <-> qsum (w1 ++ b :: w2) == 0) ->
  req (wa_q (c1 ++ x :: c2) (w1 ++ a :: w2)) (wa_q (c1 ++ x :: c2) (w1 ++ b :: w2)).
Proof.
  intros c1 c2 w1 w2 x a b HL Hx Ha Hb HS.
  assert (EV : wa_valid x = false).
  { unfold wa_valid. destruct (Qle_bool 0 x) eqn:E; auto. apply Qle_bool_iff in E. lra. }
  assert (HK : forall y, wa_keep (c1 ++ x :: c2) (w1 ++ y :: w2) = wa_keep c1 w1 ++ wa_keep c2 w2).
  { intros y. rewrite keep_app by exact HL. cbn [wa_keep]. rewrite EV. reflexivity. }
  apply wa_q_congr.
  - rewrite !app_length. reflexivity.
  - rewrite !existsb_negw_app. cbn [existsb].
    assert (E2 : negw a = false) by (apply negw_false; lra).
    assert (E3 : negw b = false) by (apply negw_false; lra).
    rewrite E2, E3. reflexivity.
  - exact HS.
  - rewrite !HK. reflexivity.
  - rewrite !HK. reflexivity.
  - intros _. rewrite !HK. reflexivity.
Qed.
(* the side condition holds whenever the other rows carry some weight, or both weights are positive *)
Corollary wa_ignores_ignored_pos_q : forall c1 c2 w1 w2 x a b,
  length c1 = length w1 -> x < 0 -> 0 <= a -> 0 <= b ->
  Forall (fun y => 0 <= y) (w1 ++ w2) -> (0 < qsum (w1 ++ w2) \/ (0 < a /\ 0 < b)) ->
  req (wa_q (c1 ++ x :: c2) (w1 ++ a :: w2)) (wa_q (c1 ++ x :: c2) (w1 ++ b :: w2)).
Proof.
  intros c1 c2 w1 w2 x a b HL Hx Ha Hb HF HP. apply wa_ignores_ignored_q; auto.
  apply qsum_nonneg in HF. rewrite !qsum_app, !qsum_cons. rewrite qsum_app in HF, HP.
  split; intros H; destruct HP as [HP|[HP1 HP2]]; lra.
Qed.
(* ... and is necessary: giving weight to an ignored row turns 0 into nan when no comparable row has weight *)
Example wa_ignored_weight_matters :
  wa_q [1; -1] [0; 0] = Ok (Fin 0) /\ wa_q [1; -1] [0; 1] = Ok NaN.
Proof. split; reflexivity. Qed.

(* ---------- wa_range, wa_all_one, wa_all_zero ---------- *)
Lemma num_bounds c w :
  Forall (fun x => x < 0 \/ (0 <= x /\ x <= 1)) c -> Forall (fun x => 0 <= x) w ->
  0 <= cmp_num c w /\ cmp_num c w <= cmp_den c w.
Proof.
  intros HC. revert w. induction HC as [|x c Hx _ IH]; intros [|y w] HW; cbn [cmp_num cmp_den]; try lra.
  inversion HW as [|? ? Hy HW']; subst. specialize (IH _ HW').
  destruct (Qle_bool 0 x) eqn:E.
  - apply Qle_bool_iff in E. destruct Hx as [Hx|Hx]; [lra|]. nra.
  - lra.
Qed.
Lemma div_bounds n d : 0 <= n -> n <= d -> ~ d == 0 -> 0 <= n / d /\ n / d <= 1.
Proof.
  intros Hn Hd Hz. assert (Hp : 0 < d) by lra.
  split.
  - apply Qle_shift_div_l; auto. lra.
  - apply Qle_shift_div_r; auto. lra.
Qed.
Theorem wa_range_q : forall c w s,
  Forall (fun x => x < 0 \/ (0 <= x /\ x <= 1)) c ->
  wa_q c w = Ok (Fin s) -> 0 <= s /\ s <= 1.
Proof.
  intros c w s HC H. apply wa_q_fin_inv in H. destruct H as (HL & HW & [->|[HD ->]]); [lra|].
  rewrite wa_score_eq, keep_num, keep_total.
  destruct (num_bounds c w HC HW). apply div_bounds; auto.
Qed.
Theorem wa_all_zero_q : forall c w s,
  Forall (fun x => x < 0 \/ x == 0) c -> wa_q c w = Ok (Fin s) -> s == 0.
Proof.
  intros c w s HC H. apply wa_q_fin_inv in H. destruct H as (HL & HW & [->|[HD ->]]); [lra|].
  rewrite wa_score_eq, keep_num.
  assert (EN : cmp_num c w == 0).
  { clear HL HW HD. revert w. induction HC as [|x c Hx _ IH]; intros [|y w]; cbn [cmp_num]; try lra.
    rewrite IH. destruct (Qle_bool 0 x) eqn:E; [|lra]. apply Qle_bool_iff in E.
    destruct Hx as [Hx|Hx]; [lra|]. rewrite Hx. lra. }
  rewrite EN. unfold Qdiv. lra.
Qed.
Theorem wa_all_one_q : forall c w,
  length c = length w -> Forall (fun x => 0 <= x) w ->
  Forall (fun x => x < 0 \/ x == 1) c -> 0 < cmp_den c w ->
  exists s, wa_q c w = Ok (Fin s) /\ s == 1.
Proof.
  intros c w HL HW HC HD. destruct (wa_is_weighted_mean_q c w HL HW HD) as (s & E & Hs).
  exists s. split; [exact E|]. rewrite Hs.
  assert (EN : cmp_num c w == cmp_den c w).
  { clear HL HW HD E Hs. revert w. induction HC as [|x c Hx _ IH]; intros [|y w]; cbn [cmp_num cmp_den]; try lra.
    rewrite IH. destruct (Qle_bool 0 x) eqn:E; [|lra]. apply Qle_bool_iff in E.
    destruct Hx as [Hx|Hx]; [lra|]. rewrite Hx. lra. }
  rewrite EN. field. lra.
Qed.
Example wa_all_one_sat : exists s, wa_q [1; -1; 1] [2; 5; 0] = Ok (Fin s) /\ s == 1.
Proof. eexists. split; [reflexivity|]. vm_compute. reflexivity. Qed.

(* ---------- the instance on integer comparisons 1 / 0 / -1 ---------- *)
Definition cmp3 (z : Z) : Prop := z = 1%Z \/ z = 0%Z \/ z = (-1)%Z.
Lemma cmp3_q c : Forall cmp3 c -> Forall (fun x => x < 0 \/ (0 <= x /\ x <= 1)) (map inject_Z c).
Proof.
  induction 1 as [|z c Hz _ IH]; cbn [map]; constructor; auto.
  destruct Hz as [->|[->| ->]]; unfold inject_Z; [right|right|left]; lra.
Qed.
Theorem wa_scale : forall k c w, 0 < k -> req (wa c (map (Qmult k) w)) (wa c w).
Proof. intros. apply wa_scale_q; auto. Qed.
Theorem wa_range : forall c w s, Forall cmp3 c -> wa c w = Ok (Fin s) -> 0 <= s /\ s <= 1.
Proof. intros c w s HC H. eapply wa_range_q; [apply cmp3_q; exact HC|exact H]. Qed.
Theorem wa_is_weighted_mean : forall c w,
  length c = length w -> Forall (fun x => 0 <= x) w -> 0 < cmp_den (map inject_Z c) w ->
  exists s, wa c w = Ok (Fin s) /\ s == cmp_num (map inject_Z c) w / cmp_den (map inject_Z c) w.
Proof. intros c w HL. apply wa_is_weighted_mean_q. rewrite map_length. exact HL. Qed.
Theorem wa_all_one : forall c w,
  length c = length w -> Forall (fun x => 0 <= x) w ->
  Forall (fun z => z = 1%Z \/ z = (-1)%Z) c -> 0 < cmp_den (map inject_Z c) w ->
  exists s, wa c w = Ok (Fin s) /\ s == 1.
Proof.
  intros c w HL HW HC. apply wa_all_one_q; auto. - rewrite map_length. exact HL.
  - clear HL. induction HC as [|z c Hz _ IH]; cbn [map]; constructor; auto.
    destruct Hz as [->| ->]; unfold inject_Z; [right|left]; lra.
Qed.
Theorem wa_all_zero : forall c w s,
  Forall (fun z => z = 0%Z \/ z = (-1)%Z) c -> wa c w = Ok (Fin s) -> s == 0.
Proof.
  intros c w s HC. apply wa_all_zero_q.
  induction HC as [|z c Hz _ IH]; cbn [map]; constructor; auto.
  destruct Hz as [->| ->]; unfold inject_Z; [right|left]; lra.
Qed.
Theorem wa_split_row : forall c1 c2 w1 w2 z a b,
  length c1 = length w1 -> 0 <= a -> 0 <= b ->
  req (wa (c1 ++ z :: c2) (w1 ++ (a + b) :: w2)) (wa (c1 ++ z :: z :: c2) (w1 ++ a :: b :: w2)).
Proof.
  intros c1 c2 w1 w2 z a b HL Ha Hb. unfold wa. rewrite !map_app. cbn [map].
  apply wa_split_row_q; auto. rewrite map_length. exact HL.
Qed.
Theorem wa_ignores_ignored : forall c1 c2 w1 w2 a b,
  length c1 = length w1 -> 0 <= a -> 0 <= b ->
  (qsum (w1 ++ a :: w2) == 0 <-> qsum (w1 ++ b :: w2) == 0) ->
  req (wa (c1 ++ (-1)%Z :: c2) (w1 ++ a :: w2)) (wa (c1 ++ (-1)%Z :: c2) (w1 ++ b :: w2)).
Proof.
  intros c1 c2 w1 w2 a b HL Ha Hb HS. unfold wa. rewrite !map_app. cbn [map].
  apply wa_ignores_ignored_q; auto. - rewrite map_length. exact HL. - unfold inject_Z. lra.
Qed.

Print Assumptions wa_scale_q. Print Assumptions wa_split_row_q. Print Assumptions wa_ignores_ignored_q.
Print Assumptions wa_ignores_ignored_pos_q. Print Assumptions wa_range_q. Print Assumptions wa_all_zero_q.
Print Assumptions wa_all_one_q. Print Assumptions wa_is_weighted_mean_q.
Print Assumptions wa_scale. Print Assumptions wa_range. Print Assumptions wa_is_weighted_mean.
Print Assumptions wa_all_one. Print Assumptions wa_all_zero. Print Assumptions wa_split_row.
Print Assumptions wa_ignores_ignored. Print Assumptions wa_ignored_weight_matters.
