(* The validators translated from the source (Gen/ValidatorsGen.v, translator/validfuncs.py; meaning: Model/ArrExp.v)
   have the outcome (returns / raises <class>) of the hand-written model validators, for all inputs:
     util.validate_events / validate_intervals / validate_frequencies           = Model.Validators.*_arr
     onset.validate, beat.validate                                              = events_validate_arr
     segment.validate_boundary                                                  = validate_boundary_arr   (0-d arrays included:
                                                   TypeError from len())
     segment.validate_structure                                                 = validate_structure_arr
     chord.validate                                                             = chord_validate
     melody.validate_voicing / validate                                         = melody_validate_voicing_nd / melody_validate_nd
                                                   (arrays of any shape, IndexError from .shape[0] of a 0-d array; = Model.Melody on 1-d)
     multipitch.validate                                                        = multipitch_validate_arr
     transcription.validate_intervals / validate, transcription_velocity.validate = validate_pair_arr / transcription_validate_nd /
                                                   velocity_validate_nd (pitch / velocity arrays of any shape; = the list-level models on 1-d)
     tempo.validate_tempi / validate                                            = Model.Tempo (inf / nan entries included)
     key.validate                                                               = Model.Key.validate      (validate_key is a callee)
     pattern.validate                                                           = Model.Pattern.validate_raw
     alignment.validate                                                         = Model.Alignment.validate_in
     hierarchy.validate_hier_intervals                                          = validate_hier_arr (empty list: IndexError; a 0-d level:
                                                   TypeError from len() in util.generate_labels; the accumulated set of boundaries only feeds warnings)
   Callees (util validators inside the task validators, validate_chord_label, validate_key, ...) are the argument
   [vext] of the evaluator, instantiated with the model functions; the three util validators are themselves tied.
   The proofs mention nothing of the generated text except the names gen_X: the decision tree of the program on
   symbolic input is computed ([ev_tree]), size tests are normalised to naturals ([norm]), loops over lists of the
   input are replaced by their step function ([run_each_then_map], the body re-evaluated on a generic item), and the
   remaining tests are split. A source with a different meaning leaves a leaf unprovable. *)
From Coq Require Import String.
From Coq Require Import List Bool Arith ZArith QArith Qabs Qminmax Lia ZifyBool Lqa.
From ME Require Import Model.Prelude Model.VecExp Model.Validators Model.ArrExp.
From ME Require Model.Melody Model.Alignment Model.Tempo Model.Key Model.Pattern Model.ChordParse.
From ME Require Import Gen.ValidatorsGen.
Import ListNotations.
Open Scope Q_scope.

Definition lift_u (r : res unit) : out unit := match r with Ok _ => OK tt | Raise e => EXN e end.

(* ---------- decision trees ---------- *)
Lemma run_tbind {A B} (t : dt A) (k : A -> dt B) : run_dt (tbind t k) = obind (run_dt t) (fun x => run_dt (k x)).
Proof. induction t as [a|e| |c t1 IH1 t2 IH2|o t IH]; cbn [tbind run_dt obind]; try reflexivity.
  - destruct c; auto.
  - destruct o as [[]|e|]; cbn [obind]; auto. Qed.
(* a loop over a list of the input: every step either stops with an outcome or goes on *)
Fixpoint each_out {X} (h : X -> out unit) (l : list X) : out unit :=
  match l with [] => OK tt | x :: t => obind (h x) (fun _ => each_out h t) end.
Lemma run_each_then_map {X} (g : aval -> dt unit -> dt unit) (F : X -> aval) (h : X -> out unit) :
  (forall x K, run_dt (g (F x) K) = obind (h x) (fun _ => run_dt K)) ->
  forall l K, run_dt (each_then g (map F l) K) = obind (each_out h l) (fun _ => run_dt K).
Proof.
  intros H l K. induction l as [|x t IH]; cbn [map each_then each_out obind]; [reflexivity|].
  rewrite H, IH. destruct (h x) as [[]|e|]; reflexivity.
Qed.

(* ---------- comparisons of sizes ---------- *)
Definition ncmp (op : vcmp) (n m : nat) : bool :=
  match op with VEq => n =? m | VNe => negb (n =? m) | VLt => n <? m | VLe => n <=? m | VGt => m <? n | VGe => m <=? n end%nat.
Lemma zcmp_nat op n m : zcmp op (Z.of_nat n) (Z.of_nat m) = ncmp op n m.
Proof. destruct op; unfold zcmp, ncmp; lia. Qed.
Lemma existsb_map_id {A} (f : A -> bool) l : existsb (fun b => b) (map f l) = existsb f l.
Proof. induction l; cbn; [reflexivity|]. now rewrite IHl. Qed.
Lemma forallb_map_id {A} (f : A -> bool) l : forallb (fun b => b) (map f l) = forallb f l.
Proof. induction l; cbn; [reflexivity|]. now rewrite IHl. Qed.

Ltac ev_lazy g ext :=
  match goal with |- context [run_dt ?T] =>
    let T' := eval lazy [g ext aprog_tree block exec eval list_eval tbind ap_params ap_body app
       sget slookup String.eqb Ascii.eqb Bool.eqb poison poison_keep carried_ok is_opaque sbind bind_names assigned assigned_block
       truth truth_defined called arr1
       a_cmp a_bin a_ndim a_size a_shape a_len a_index a_col a_tail a_init a_last a_abs a_diff a_isfinite a_logic a_red
       a_allclose a_isarray a_enumerate a_set item_at rest_items scal one_d arr1d zn] in T in change T with T' end.
Ltac ev_tree g ext :=
  unfold arun; ev_lazy g ext; repeat (progress cbn [each_then]; ev_lazy g ext);
  cbn [run_dt ndim shape data].
(* sizes compared as naturals, reductions over maps fused, element tests in the model's vocabulary *)
Ltac norm_z :=
  repeat match goal with
  | |- context [zcmp ?op (Z.of_nat ?n) (Z.of_nat ?m)] => rewrite (zcmp_nat op n m)
  | |- context [zcmp ?op (Z.of_nat ?n) ?z] =>
      let m := eval vm_compute in (Z.to_nat z) in
      change (zcmp op (Z.of_nat n) z) with (zcmp op (Z.of_nat n) (Z.of_nat m)); rewrite (zcmp_nat op n m)
  end.
Lemma shape_eqb_refl s : shape_eqb s s = true.
Proof. unfold shape_eqb. destruct (list_eq_dec Nat.eq_dec s s); congruence. Qed.
Ltac is_closed t := match t with context [?x] => is_var x; fail 1 | _ => idtac end.
Ltac closed_tests :=
  repeat match goal with
  | |- context [(?a =? ?b)%nat] => is_closed a; is_closed b;
      let v := eval vm_compute in (a =? b)%nat in change (a =? b)%nat with v
  | |- context [(?a <? ?b)%nat] => is_closed a; is_closed b;
      let v := eval vm_compute in (a <? b)%nat in change (a <? b)%nat with v
  | |- context [(?a <=? ?b)%nat] => is_closed a; is_closed b;
      let v := eval vm_compute in (a <=? b)%nat in change (a <=? b)%nat with v
  end.
Ltac norm :=
  norm_z; rewrite ?existsb_map_id, ?forallb_map_id;
  cbv [ncmp qcmp inject_Z]; cbn [length nth]; closed_tests; rewrite ?shape_eqb_refl; cbn [andb orb negb].
Definition lift_any {A} (r : res A) : out unit := match r with Ok _ => OK tt | Raise e => EXN e end.
Ltac bool_atom c :=
  lazymatch c with
  | negb ?d => bool_atom d
  | orb ?a _ => bool_atom a
  | andb ?a _ => bool_atom a
  | _ => c
  end.
Ltac split_ifs :=
  repeat match goal with
  | |- context [if ?c then _ else _] =>
      lazymatch c with
      | context [if _ then _ else _] => fail
      | _ => let d := bool_atom c in destruct d eqn:?; cbn [negb orb andb lift_u lift_any obind bind]
      end
  end.


Lemma qle_bool_eq a b c d : (a <= b <-> c <= d) -> Qle_bool a b = Qle_bool c d.
Proof.
  intros H. destruct (Qle_bool a b) eqn:E1, (Qle_bool c d) eqn:E2; try reflexivity.
  - apply Qle_bool_iff in E1. apply H in E1. apply Qle_bool_iff in E1. congruence.
  - apply Qle_bool_iff in E2. apply H in E2. apply Qle_bool_iff in E2. congruence.
Qed.
Lemma diffs_nondecreasing l : existsb (fun e => qltb e 0) (diffs l) = negb (nondecreasing l).
Proof.
  induction l as [|x [|y t] IH]; try reflexivity.
  change (diffs (x :: y :: t)) with ((y - x) :: diffs (y :: t)).
  change (nondecreasing (x :: y :: t)) with (qleb x y && nondecreasing (y :: t)).
  cbn [existsb]. rewrite IH, negb_andb. f_equal.
  unfold qltb, qleb. f_equal. apply qle_bool_eq. split; intros; lra.
Qed.

Theorem validate_events_tie : forall (a : arr) (mx : Q),
  arun gen_util_validate_events no_callee [DArr a; DNum mx] = lift_u (validate_events_arr mx a).
Proof.
  intros. ev_tree gen_util_validate_events no_callee. norm. rewrite diffs_nondecreasing.
  unfold validate_events_arr. split_ifs; try reflexivity; try discriminate.
Qed.

Theorem validate_events_tie_int : forall (a : arr) (mx : Z),
  arun gen_util_validate_events no_callee [DArr a; DInt mx] = lift_u (validate_events_arr (inject_Z mx) a).
Proof.
  intros. ev_tree gen_util_validate_events no_callee. norm_z. rewrite ?existsb_map_id. cbv [ncmp qcmp]. change (inject_Z 0) with 0.
  cbn [Nat.eqb negb]. rewrite diffs_nondecreasing.
  unfold validate_events_arr. split_ifs; try reflexivity; try discriminate.
Qed.

(* ---------- util.validate_intervals ---------- *)
(* the two columns of an (n, 2) array are the components of its rows *)
Lemma cols_rows2 : forall n d, length d = (n * 2)%nat ->
  map (fun r => nth (r * 2 + 1) d 0) (seq 0 n) = map snd (rows2 d) /\
  map (fun r => nth (r * 2 + 0) d 0) (seq 0 n) = map fst (rows2 d).
Proof.
  induction n as [|n IH]; intros d L.
  - destruct d; [split; reflexivity|discriminate].
  - destruct d as [|x [|y t]]; try discriminate. cbn [length] in L.
    assert (Lt : length t = (n * 2)%nat) by lia. destruct (IH t Lt) as [I1 I0].
    cbn [seq rows2 map fst snd]. rewrite <- seq_shift, !map_map. split; f_equal.
    + rewrite <- I1. apply map_ext_in. intros r _. replace (S r * 2 + 1)%nat with (S (S (r * 2 + 1))) by lia. reflexivity.
    + rewrite <- I0. apply map_ext_in. intros r _. replace (S r * 2 + 0)%nat with (S (S (r * 2 + 0))) by lia. reflexivity.
Qed.
Lemma bcv_same {A B C} (f : A -> B -> C) a b : length a = length b -> bcv f a b = vmap2 f a b.
Proof. intros H. unfold bcv. now rewrite H, Nat.eqb_refl. Qed.
Lemma bc_ok_same {A B} (a : list A) (b : list B) : length a = length b -> bc_ok a b = true.
Proof. intros H. unfold bc_ok. now rewrite H, Nat.eqb_refl. Qed.
Lemma existsb_vmap2_rows (f : Q -> Q -> bool) : forall ivs : list (Q * Q),
  existsb (fun b => b) (vmap2 f (map snd ivs) (map fst ivs)) = existsb (fun iv => f (snd iv) (fst iv)) ivs.
Proof. induction ivs as [|p t IH]; cbn; [reflexivity|]. now rewrite IH. Qed.
Lemma existsb_vmap2_rows' (f : Q -> Q -> bool) : forall ivs : list (Q * Q),
  existsb (fun b => b) (vmap2 f (map fst ivs) (map snd ivs)) = existsb (fun iv => f (fst iv) (snd iv)) ivs.
Proof. induction ivs as [|p t IH]; cbn; [reflexivity|]. now rewrite IH. Qed.

Theorem validate_intervals_tie : forall a : arr, wf_arr a = true ->
  arun gen_util_validate_intervals no_callee [DArr a] = lift_u (validate_intervals_arr a).
Proof.
  intros [nd sh d] W. unfold wf_arr in W. cbn [ndim shape data] in W. apply andb_true_iff in W as [W1 W2].
  apply Nat.eqb_eq in W1, W2.
  ev_tree gen_util_validate_intervals no_callee. norm.
  unfold validate_intervals_arr, is_n_by_2, rows. cbn [ndim shape data].
  destruct (nd =? 2)%nat eqn:E; cbn [negb andb].
  - apply Nat.eqb_eq in E. subst nd. destruct sh as [|n [|c [|? ?]]]; try discriminate. cbn [length nth]. closed_tests.
    destruct (c =? 2)%nat eqn:Ec; cbn [negb lift_u]; [|split_ifs; reflexivity].
    apply Nat.eqb_eq in Ec. subst c. closed_tests.
    assert (L : length d = (n * 2)%nat) by (rewrite W2; cbn; lia).
    destruct (cols_rows2 n d L) as [C1 C0]. rewrite ?C1, ?C0.
    rewrite ?bc_ok_same by now rewrite !map_length.
    rewrite ?bcv_same by now rewrite !map_length.
    rewrite ?existsb_vmap2_rows, ?existsb_vmap2_rows'. cbv beta.
    split_ifs; reflexivity.
  - cbn [lift_u]. split_ifs; reflexivity.
Qed.

(* ---------- util.validate_frequencies ---------- *)
Lemma forallb_map' {A B} (p : B -> bool) (g : A -> B) l : forallb p (map g l) = forallb (fun x => p (g x)) l.
Proof. induction l; cbn; [reflexivity|]. now rewrite IHl. Qed.
Lemma existsb_ext' {A} (p q : A -> bool) l : (forall x, p x = q x) -> existsb p l = existsb q l.
Proof. intros H. induction l; cbn; [reflexivity|]. now rewrite H, IHl. Qed.
Lemma existsb_map' {A B} (p : B -> bool) (g : A -> B) l : existsb p (map g l) = existsb (fun x => p (g x)) l.
Proof. induction l; cbn; [reflexivity|]. now rewrite IHl. Qed.
Lemma Qabs_idem x : Qabs (Qabs x) = Qabs x.
Proof. destruct x as [n d]. unfold Qabs. now rewrite Z.abs_involutive. Qed.
Lemma map_abs_abs l : map Qabs (map Qabs l) = map Qabs l.
Proof. rewrite map_map. apply map_ext. intros. apply Qabs_idem. Qed.
(* both tests of the model take the absolute value: the flag does not matter (the known finding C18-negative-frequencies) *)
Lemma vf_flag mx mn neg a : validate_frequencies_arr mx mn neg a = validate_frequencies_arr mx mn false a.
Proof.
  destruct neg; [|reflexivity]. unfold validate_frequencies_arr.
  rewrite !existsb_map'. 
  rewrite (existsb_ext' _ (fun x => qltb mx (Qabs x))) by (intros; now rewrite Qabs_idem).
  rewrite (existsb_ext' (fun x => qltb (Qabs (Qabs x)) mn) (fun x => qltb (Qabs x) mn)) by (intros; now rewrite Qabs_idem).
  reflexivity.
Qed.
Theorem validate_frequencies_tie : forall (a : arr) (mx mn : Q) (neg : bool),
  arun gen_util_validate_frequencies no_callee [DArr a; DNum mx; DNum mn; DBool neg] = lift_u (validate_frequencies_arr mx mn neg a).
Proof.
  intros. rewrite vf_flag. ev_tree gen_util_validate_frequencies no_callee. norm. rewrite ?map_abs_abs.
  unfold validate_frequencies_arr. rewrite ?existsb_map'. split_ifs; try reflexivity; try discriminate.
Qed.

(* ---------- callees ---------- *)
(* pattern._n_onset_midi: the number of innermost items of a list of lists of lists *)
Definition items (v : aval) : list aval := match v with DList l => l | _ => [] end.
Definition count_notes (ps : list aval) : nat := length (flat_map items (flat_map items ps)).
Definition vext (f : callee) (vs : list aval) : dt aval :=
  match f, vs with
  | F_util_validate_events, [DArr a; DNum mx] => called (lift_u (validate_events_arr mx a))
  | F_util_validate_intervals, [DArr a] => called (lift_u (validate_intervals_arr a))
  | F_util_validate_frequencies, [DArr a; DNum mx; DNum mn; DBool neg] => called (lift_u (validate_frequencies_arr mx mn neg a))
  | F_chord_validate_chord_label, [DStr s] => called (lift_u (ChordParse.validate_label s))
  | F_transcription_validate_intervals, [DArr r; DArr e] => called (lift_u (validate_pair_arr r e))
  | F_transcription_validate, [DArr ri; DArr rp; DArr ei; DArr ep] => called (lift_u (transcription_validate_nd ri rp ei ep))
  | F_tempo_validate_tempi, [DXArr t; DBool r] => called (lift_any (Tempo.validate_tempi t r))
  | F_key_validate_key, [DStr s] => called (lift_u (Key.validate_key s))
  | F_pattern_n_onset_midi, [DList ps] => Ret (DInt (Z.of_nat (count_notes ps)))
  (* util.generate_labels(a, prefix): len(a) strings (TypeError on a 0-d array); only their number matters *)
  | F_util_generate_labels, [DArr a; DStr _] =>
      Test (is_nil (shape a)) (Exn TypeError) (Ret (DList (repeat DNone (nth 0 (shape a) 0%nat))))
  (* util.intervals_to_boundaries(a, q) = np.unique(np.ravel(np.round(a, q))): total on arrays; the result is only passed on *)
  | F_util_intervals_to_boundaries, [DArr _; DInt _] => Ret DOpaque
  | F_segment_validate_structure, [DArr ri; DList rl; DArr ei; DList el] =>
      called (lift_u (validate_structure_arr ri (length rl) ei (length el)))
  | _, _ => Unm
  end.

Lemma lift_bind (a : res unit) (k : unit -> res unit) : lift_u (x <- a ;; k x) = obind (lift_u a) (fun x => lift_u (k x)).
Proof. destruct a as [[]|]; reflexivity. Qed.
(* the model validators that are called raise ValueError only: a reordering of calls that keeps the class is harmless *)
Lemma ve_events mx a e : validate_events_arr mx a = Raise e -> e = ValueError.
Proof. unfold validate_events_arr. repeat (destruct (_ : bool); try congruence). Qed.
Lemma ve_intervals a e : validate_intervals_arr a = Raise e -> e = ValueError.
Proof. unfold validate_intervals_arr. repeat (destruct (_ : bool); try congruence). Qed.
Lemma ve_freqs mx mn neg a e : validate_frequencies_arr mx mn neg a = Raise e -> e = ValueError.
Proof. unfold validate_frequencies_arr. repeat (destruct (_ : bool); try congruence). Qed.
Lemma ve_all_freqs l e : validate_all_freqs_arr l = Raise e -> e = ValueError.
Proof.
  induction l as [|a t IH]; cbn [validate_all_freqs_arr]; [discriminate|].
  destruct (validate_frequencies_arr _ _ _ a) as [[]|x] eqn:V; cbn [bind]; [exact IH|].
  intros [= <-]. exact (ve_freqs _ _ _ _ _ V).
Qed.
Ltac ve H :=
  first [ apply ve_events in H | apply ve_intervals in H | apply ve_freqs in H | apply ve_all_freqs in H ]; subst.
Ltac res_step :=
  match goal with
  | |- context [lift_u ?r] =>
      lazymatch r with
      | Ok _ => fail | Raise _ => fail | bind _ _ => fail
      | if _ then _ else _ => fail
      | match _ with _ => _ end => fail
      | _ => let V := fresh "V" in destruct r as [[]|?x] eqn:V; [|try ve V]
      end
  end; cbn [lift_u obind bind].
Ltac if_step :=
  match goal with
  | |- context [if ?c then _ else _] =>
      lazymatch c with
      | context [if _ then _ else _] => fail
      | _ => let d := bool_atom c in destruct d eqn:?; cbn [negb orb andb lift_u lift_any obind bind]
      end
  end.
Ltac res_cases := rewrite ?lift_bind; cbn [lift_u obind bind]; repeat first [res_step | if_step].

Theorem onset_validate_tie : forall r e : arr, arun gen_onset_validate vext [DArr r; DArr e] = lift_u (events_validate_arr r e).
Proof. intros. ev_tree gen_onset_validate vext. unfold events_validate_arr, EV_MAX_TIME. res_cases; reflexivity. Qed.
Theorem beat_validate_tie : forall r e : arr, arun gen_beat_validate vext [DArr r; DArr e] = lift_u (events_validate_arr r e).
Proof. intros. ev_tree gen_beat_validate vext. unfold events_validate_arr, EV_MAX_TIME. res_cases; reflexivity. Qed.

(* segment.validate_boundary calls len() on both arrays first: a 0-d array is rejected with TypeError there *)
Theorem segment_validate_boundary_tie : forall (r e : arr) (trim : bool),
  arun gen_segment_validate_boundary vext [DArr r; DArr e; DBool trim] = lift_u (validate_boundary_arr r e).
Proof.
  intros r e trim. ev_tree gen_segment_validate_boundary vext. unfold validate_boundary_arr, validate_pair_arr, arr_len.
  destruct (shape r), (shape e); cbn [is_nil bind lift_u]; destruct trim; res_cases; reflexivity.
Qed.

Theorem transcription_validate_intervals_tie : forall r e : arr,
  arun gen_transcription_validate_intervals vext [DArr r; DArr e] = lift_u (validate_pair_arr r e).
Proof. intros. ev_tree gen_transcription_validate_intervals vext. unfold validate_pair_arr. res_cases; reflexivity. Qed.

(* ---------- segment.validate_structure ---------- *)
Lemma vi_ok_shape a : wf_arr a = true -> validate_intervals_arr a = Ok tt -> (0 <? length (shape a))%nat = true.
Proof.
  unfold wf_arr, validate_intervals_arr, is_n_by_2. intros W V. apply andb_true_iff in W as [W _]. apply Nat.eqb_eq in W.
  destruct (ndim a =? 2)%nat eqn:E; cbn [andb negb] in V; [|discriminate]. apply Nat.eqb_eq in E. apply Nat.ltb_lt. lia.
Qed.
Theorem segment_validate_structure_tie : forall (ri ei : arr) (rl el : list aval), wf_arr ri = true -> wf_arr ei = true ->
  arun gen_segment_validate_structure vext [DArr ri; DList rl; DArr ei; DList el]
  = lift_u (validate_structure_arr ri (length rl) ei (length el)).
Proof.
  intros ri ei rl el Wr We. ev_tree gen_segment_validate_structure vext. norm.
  unfold validate_structure_arr, validate_one_arr, shape0, allclose. rewrite !lift_bind.
  change np_atol with default_atol. change np_rtol with default_rtol.
  destruct (validate_intervals_arr ri) as [[]|x] eqn:V1; [rewrite ?(vi_ok_shape ri Wr V1)|ve V1];
    (destruct (validate_intervals_arr ei) as [[]|x] eqn:V2; [rewrite ?(vi_ok_shape ei We V2)|ve V2]);
    cbn [lift_u obind];
    destruct (data ri) as [|x1 d1], (data ei) as [|x2 d2];
    cbn [length Nat.ltb Nat.leb is_nil qmin_list qmax_list qmin0 qmax0 lift_u obind]; split_ifs; reflexivity.
Qed.


(* a loop over a list of the input: the step function h is read off the loop body *)
Ltac loop g ext h :=
  rewrite (run_each_then_map _ _ h) by (intros; ev_lazy g ext; cbn [run_dt]; reflexivity).

(* ---------- chord.validate ---------- *)
Lemma each_validate_labels l : each_out (fun s => lift_u (ChordParse.validate_label s)) l = lift_u (validate_labels l).
Proof. induction l as [|s t IH]; cbn [each_out validate_labels]; [reflexivity|]. rewrite lift_bind, IH. reflexivity. Qed.
Theorem chord_validate_tie : forall r e : list str,
  arun gen_chord_validate vext [DList (map DStr r); DList (map DStr e)] = lift_u (chord_validate r e).
Proof.
  intros. ev_tree gen_chord_validate vext.
  loop gen_chord_validate vext (fun s => lift_u (ChordParse.validate_label s)).
  loop gen_chord_validate vext (fun s => lift_u (ChordParse.validate_label s)).
  rewrite !each_validate_labels, !map_length. cbn [run_dt]. norm.
  unfold chord_validate. split_ifs; res_cases; reflexivity.
Qed.

(* ---------- multipitch.validate ---------- *)
Lemma each_all_freqs l :
  each_out (fun f => lift_u (validate_frequencies_arr 5000 20 false f)) l = lift_u (validate_all_freqs_arr l).
Proof. induction l as [|s t IH]; cbn [each_out validate_all_freqs_arr]; [reflexivity|]. rewrite lift_bind, IH. reflexivity. Qed.
Theorem multipitch_validate_tie : forall (rt et : arr) (rf ef : list arr),
  arun gen_multipitch_validate vext [DArr rt; DList (map DArr rf); DArr et; DList (map DArr ef)]
  = lift_u (multipitch_validate_arr rt rf et ef).
Proof.
  intros. ev_tree gen_multipitch_validate vext.
  loop gen_multipitch_validate vext (fun f => lift_u (validate_frequencies_arr 5000 20 false f)).
  loop gen_multipitch_validate vext (fun f => lift_u (validate_frequencies_arr 5000 20 false f)).
  cbn [run_dt]. rewrite ?map_length, !each_all_freqs. norm.
  unfold multipitch_validate_arr, asize, MP_MAX_TIME. rewrite !lift_bind.
  res_cases; reflexivity.
Qed.

(* ---------- melody.validate_voicing / validate ---------- *)
Lemma existsb_vmap2_same {A} (f g : A -> bool) l :
  existsb (fun b => b) (vmap2 orb (map f l) (map g l)) = existsb (fun x => f x || g x) l.
Proof. induction l; cbn; [reflexivity|]. now rewrite IHl. Qed.
Lemma existsb_vmap2_same' {A} (f g : A -> bool) l :
  existsb (fun b => b) (vmap2 orb (map f l) (map g l)) = existsb (fun x => f x || g x) l.
Proof. apply existsb_vmap2_same. Qed.
(* a.shape[0] in the evaluator and in the model *)
Lemma ltb_0_S n : (0 <? S n)%nat = true. Proof. reflexivity. Qed.
Ltac shape_cases a :=
  unfold arr_shape0; destruct (shape a) as [|? ?]; cbn [length nth bind lift_u]; closed_tests; rewrite ?ltb_0_S; cbn [lift_u].
Theorem melody_validate_voicing_tie : forall rv ev : arr,
  arun gen_melody_validate_voicing vext [DArr rv; DArr ev] = lift_u (melody_validate_voicing_nd rv ev).
Proof.
  intros. ev_tree gen_melody_validate_voicing vext. norm. rewrite !existsb_vmap2_same.
  unfold melody_validate_voicing_nd, voicing_out_of_range. shape_cases rv; [reflexivity|]. shape_cases ev; [reflexivity|].
  split_ifs; reflexivity.
Qed.
Theorem melody_validate_tie : forall rv rc ev ec : arr,
  arun gen_melody_validate vext [DArr rv; DArr rc; DArr ev; DArr ec] = lift_u (melody_validate_nd rv rc ev ec).
Proof.
  intros. ev_tree gen_melody_validate vext. norm. unfold melody_validate_nd.
  shape_cases rv; [reflexivity|]. shape_cases rc; [reflexivity|].
  shape_cases ev; [split_ifs; reflexivity|]. shape_cases ec; split_ifs; reflexivity.
Qed.
(* on 1-d arrays these are the list-level models of Model/Melody.v *)
Corollary melody_validate_voicing_tie_1d : forall rv ev : list Q,
  arun gen_melody_validate_voicing vext [DArr (arr1 rv); DArr (arr1 ev)] = lift_u (Melody.validate_voicing rv ev).
Proof.
  intros. rewrite melody_validate_voicing_tie. f_equal.
  unfold melody_validate_voicing_nd, Melody.validate_voicing, Melody.voicing_bad. cbn [arr_shape0 arr1 shape data bind].
  change voicing_out_of_range with (fun x => qltb x 0 || qltb 1 x).
  destruct (length rv =? length ev)%nat; cbn [negb]; [|reflexivity]. destruct (existsb _ rv); reflexivity.
Qed.
Corollary melody_validate_tie_1d : forall rv rc ev ec : list Q,
  arun gen_melody_validate vext [DArr (arr1 rv); DArr (arr1 rc); DArr (arr1 ev); DArr (arr1 ec)]
  = lift_u (Melody.validate rv rc ev ec).
Proof.
  intros. rewrite melody_validate_tie. f_equal. unfold melody_validate_nd, Melody.validate. cbn [arr_shape0 arr1 shape bind].
  destruct (length rv =? length rc)%nat, (length ev =? length ec)%nat, (length rc =? length ec)%nat; reflexivity.
Qed.

(* ---------- transcription.validate / transcription_velocity.validate ---------- *)
(* x.size > 0 and np.min(x) <= 0  is  "some element <= 0" *)
Lemma qle_min_or a b c : Qle_bool (Qmin a b) c = Qle_bool a c || Qle_bool b c.
Proof.
  destruct (Q.min_spec a b) as [[H E]|[H E]].
  - rewrite (qle_bool_eq (Qmin a b) c a c) by (rewrite E; tauto).
    destruct (Qle_bool a c) eqn:A; [reflexivity|]. destruct (Qle_bool b c) eqn:B; [|reflexivity].
    apply Qle_bool_iff in B. assert (a <= c) by lra. apply Qle_bool_iff in H0. congruence.
  - rewrite (qle_bool_eq (Qmin a b) c b c) by (rewrite E; tauto).
    destruct (Qle_bool b c) eqn:B; [now rewrite orb_true_r|]. destruct (Qle_bool a c) eqn:A; [|reflexivity].
    apply Qle_bool_iff in A. assert (b <= c) by lra. apply Qle_bool_iff in H0. congruence.
Qed.
Lemma qlt_min_or a b c : qltb (Qmin a b) c = qltb a c || qltb b c.
Proof.
  unfold qltb. rewrite <- negb_andb. f_equal.
  destruct (Q.min_spec a b) as [[H E]|[H E]].
  - rewrite (qle_bool_eq c (Qmin a b) c a) by (rewrite E; tauto).
    destruct (Qle_bool c a) eqn:A; [|reflexivity]. cbn [andb]. symmetry. apply Qle_bool_iff. apply Qle_bool_iff in A. lra.
  - rewrite (qle_bool_eq c (Qmin a b) c b) by (rewrite E; tauto).
    destruct (Qle_bool c b) eqn:B; [|now rewrite andb_false_r]. rewrite andb_true_r. symmetry. apply Qle_bool_iff. apply Qle_bool_iff in B. lra.
Qed.
Lemma min_le_exists c : forall t x, qleb (fold_left Qmin t x) c = existsb (fun p => qleb p c) (x :: t).
Proof.
  induction t as [|y t IH]; intros x; cbn [fold_left existsb]; [now rewrite orb_false_r|].
  rewrite IH. cbn [existsb]. unfold qleb. rewrite qle_min_or, orb_assoc. reflexivity.
Qed.
Lemma min_lt_exists c : forall t x, qltb (fold_left Qmin t x) c = existsb (fun p => qltb p c) (x :: t).
Proof.
  induction t as [|y t IH]; intros x; cbn [fold_left existsb]; [now rewrite orb_false_r|].
  rewrite IH. cbn [existsb]. rewrite qlt_min_or, orb_assoc. reflexivity.
Qed.
(* x.size > 0 and np.min(x) <= c  on an array of any shape *)
Lemma min_le_exists_nd c l :
  (if (0 <? length l)%nat then if is_nil l then true else qleb (qmin0 l) c else false) = existsb (fun p => qleb p c) l.
Proof. destruct l as [|x t]; [reflexivity|]. cbn [length Nat.ltb Nat.leb is_nil qmin0 qmin_list]. apply min_le_exists. Qed.
Theorem transcription_validate_tie : forall ri rp ei ep : arr, wf_arr ri = true -> wf_arr ei = true ->
  arun gen_transcription_validate vext [DArr ri; DArr rp; DArr ei; DArr ep] = lift_u (transcription_validate_nd ri rp ei ep).
Proof.
  intros ri rp ei ep Wr We. ev_tree gen_transcription_validate vext. norm.
  unfold transcription_validate_nd, validate_pair_arr, shape0. rewrite !lift_bind.
  destruct (validate_intervals_arr ri) as [[]|x] eqn:V1; [rewrite ?(vi_ok_shape ri Wr V1)|ve V1];
    (destruct (validate_intervals_arr ei) as [[]|x] eqn:V2; [rewrite ?(vi_ok_shape ei We V2)|ve V2]);
    cbn [lift_u obind]; try reflexivity.
  shape_cases rp; [reflexivity|]. if_step; try reflexivity. shape_cases ep; [reflexivity|]. if_step; try reflexivity.
  destruct (data rp) as [|p1 drp], (data ep) as [|p2 dep]; cbn [length Nat.ltb Nat.leb is_nil qmin0 qmin_list]; rewrite ?min_le_exists; cbn [existsb];
    split_ifs; reflexivity.
Qed.
Theorem transcription_velocity_validate_tie : forall ri rp rv ei ep ev : arr,
  arun gen_transcription_velocity_validate vext [DArr ri; DArr rp; DArr rv; DArr ei; DArr ep; DArr ev]
  = lift_u (velocity_validate_nd ri rp rv ei ep ev).
Proof.
  intros. ev_tree gen_transcription_velocity_validate vext. norm.
  unfold velocity_validate_nd, shape0. rewrite !lift_bind.
  destruct (transcription_validate_nd ri rp ei ep) as [[]|x] eqn:V1; cbn [lift_u obind]; [|reflexivity].
  assert (Sp : (0 <? length (shape rp))%nat = true /\ (0 <? length (shape ep))%nat = true).
  { unfold transcription_validate_nd, arr_shape0 in V1.
    destruct (validate_intervals_arr ri) as [[]|]; [|discriminate]. destruct (validate_intervals_arr ei) as [[]|]; [|discriminate]. cbn [bind] in V1.
    destruct (shape rp); [discriminate|]. cbn [bind] in V1. destruct (negb _); [discriminate|].
    destruct (shape ep); [discriminate|]. split; reflexivity. }
  destruct Sp as [Sp Se].
  shape_cases rv; [reflexivity|]. rewrite ?Sp. if_step; try reflexivity. shape_cases ev; [reflexivity|]. rewrite ?Se. if_step; try reflexivity.
  destruct (data rv) as [|v1 drv], (data ev) as [|v2 dev]; cbn [length Nat.ltb Nat.leb is_nil qmin0 qmin_list]; rewrite ?min_lt_exists; cbn [existsb];
    split_ifs; reflexivity.
Qed.
(* on 1-d pitch / velocity arrays these are the list-level models *)
Corollary transcription_validate_tie_1d : forall (ri ei : arr) (rp ep : list Q), wf_arr ri = true -> wf_arr ei = true ->
  arun gen_transcription_validate vext [DArr ri; DArr (arr1 rp); DArr ei; DArr (arr1 ep)]
  = lift_u (transcription_validate_arr ri rp ei ep).
Proof. intros. now rewrite transcription_validate_tie. Qed.
Corollary transcription_velocity_validate_tie_1d : forall (ri ei : arr) (rp rv ep ev : list Q),
  arun gen_transcription_velocity_validate vext
       [DArr ri; DArr (arr1 rp); DArr (arr1 rv); DArr ei; DArr (arr1 ep); DArr (arr1 ev)]
  = lift_u (velocity_validate_arr ri rp rv ei ep ev).
Proof. intros. now rewrite transcription_velocity_validate_tie. Qed.

(* ---------- tempo.validate_tempi / tempo.validate ---------- *)
Lemma all_fin_spec t :
  match Tempo.all_fin t with
  | None => forallb is_fin t = false
  | Some qs => forallb is_fin t = true /\ t = map Fin qs
  end.
Proof.
  induction t as [|x t IH]; cbn [Tempo.all_fin forallb]; [split; reflexivity|].
  destruct x; cbn [is_fin andb]; try reflexivity.
  destruct (Tempo.all_fin t) as [qs|]; cbn [option_map]; [|exact IH].
  destruct IH as [F E]. split; [exact F|]. now rewrite E.
Qed.
Theorem tempo_validate_tempi_tie : forall (t : list xval) (r : bool),
  arun gen_tempo_validate_tempi vext [DXArr t; DBool r] = lift_any (Tempo.validate_tempi t r).
Proof.
  intros. ev_tree gen_tempo_validate_tempi vext. norm.
  unfold Tempo.validate_tempi. pose proof (all_fin_spec t) as S.
  destruct (Tempo.all_fin t) as [qs|].
  - destruct S as [F ->]. rewrite F, map_length, !existsb_map', !forallb_map'. cbv [xcmp qcmp]. cbn [negb].
    split_ifs; reflexivity.
  - rewrite S. cbn [negb]. split_ifs; reflexivity.
Qed.
Theorem tempo_validate_tie : forall (r e : list xval) (w : Q),
  arun gen_tempo_validate vext [DXArr r; DNum w; DXArr e] = lift_any (Tempo.validate r w e).
Proof.
  intros. ev_tree gen_tempo_validate vext. norm. unfold Tempo.validate.
  destruct (Tempo.validate_tempi r true) as [qr|x]; cbn [lift_any obind bind]; [|reflexivity].
  destruct (Tempo.validate_tempi e false) as [qe|x]; cbn [lift_any obind bind]; [|reflexivity].
  split_ifs; reflexivity.
Qed.

(* ---------- key.validate ---------- *)
Theorem key_validate_tie : forall r e : str,
  arun gen_key_validate vext [DStr r; DStr e] = lift_u (Key.validate r e).
Proof. intros. ev_tree gen_key_validate vext. unfold Key.validate. res_cases; reflexivity. Qed.

(* ---------- alignment.validate ---------- *)
Lemma tl_removelast_length {A} (d : list A) : length (tl d) = length (removelast d).
Proof. induction d as [|x [|y t] IH]; try reflexivity. cbn [tl removelast length] in *. now rewrite <- IH. Qed.
Lemma vmap2_diffs : forall d, vmap2 Qminus (tl d) (removelast d) = Alignment.diffs d.
Proof.
  induction d as [|x [|y t] IH]; try reflexivity.
  change (tl (x :: y :: t)) with (y :: t). change (removelast (x :: y :: t)) with (x :: removelast (y :: t)).
  cbn [vmap2 Alignment.diffs]. f_equal. exact IH.
Qed.
Theorem alignment_validate_tie : forall r e : arr,
  arun gen_alignment_validate vext [DArr r; DArr e]
  = lift_any (Alignment.validate_in (Alignment.Nd (ndim r) (data r)) (Alignment.Nd (ndim e) (data e))).
Proof.
  intros. ev_tree gen_alignment_validate vext. norm.
  rewrite !bc_ok_same, !bcv_same, !vmap2_diffs by apply tl_removelast_length.
  unfold Alignment.validate_in, Alignment.validate.
  destruct (ndim r) as [|[|n]]; cbn [Nat.eqb negb lift_any]; try reflexivity.
  destruct (ndim e) as [|[|m]]; cbn [Nat.eqb negb lift_any]; try reflexivity.
  split_ifs; reflexivity.
Qed.
(* something that is not an ndarray (here: a list) is rejected first *)
Theorem alignment_validate_tie_notarray_ref : forall (l : list aval) (w : aval),
  arun gen_alignment_validate vext [DList l; w] = EXN ValueError.
Proof. intros. ev_tree gen_alignment_validate vext. reflexivity. Qed.
Theorem alignment_validate_tie_notarray_est : forall (r : arr) (l : list aval),
  arun gen_alignment_validate vext [DArr r; DList l] = EXN ValueError.
Proof. intros. ev_tree gen_alignment_validate vext. reflexivity. Qed.

(* ---------- pattern.validate ---------- *)
Definition enc_note (om : list Q) : aval := DList (map DNum om).
Definition enc_occ (o : list (list Q)) : aval := DList (map enc_note o).
Definition enc_pat (p : list (list (list Q))) : aval := DList (map enc_occ p).
Definition enc_pats (ps : list (list (list (list Q)))) : aval := DList (map enc_pat ps).
Definition h_note (om : list Q) : out unit := if negb (length om =? 2)%nat then EXN ValueError else OK tt.
Definition h_occ (o : list (list Q)) : out unit := each_out h_note o.
Definition h_pat (p : list (list (list Q))) : out unit := if (length p <=? 0)%nat then EXN ValueError else each_out h_occ p.
Ltac pattern_loop :=
  rewrite (run_each_then_map _ enc_pat h_pat);
  [| intros ?x ?K; unfold enc_pat; ev_lazy gen_pattern_validate vext; cbn [run_dt]; rewrite map_length; norm;
     rewrite (run_each_then_map _ enc_occ h_occ);
     [ unfold h_pat; split_ifs; reflexivity
     | intros ?o ?K; unfold enc_occ; ev_lazy gen_pattern_validate vext;
       rewrite (run_each_then_map _ enc_note h_note);
       [ reflexivity
       | intros ?om ?K; unfold enc_note; ev_lazy gen_pattern_validate vext; cbn [run_dt]; rewrite map_length; norm;
         unfold h_note; split_ifs; reflexivity ] ] ].
Definition ok_note (om : list Q) : bool := (length om =? 2)%nat.
Definition ok_pat (p : list (list (list Q))) : bool := negb (Pattern.is_nil p) && forallb (forallb ok_note) p.
Lemma each_all {X} (h : X -> out unit) (ok : X -> bool) :
  (forall x, h x = if ok x then OK tt else EXN ValueError) ->
  forall l, each_out h l = if forallb ok l then OK tt else EXN ValueError.
Proof.
  intros H l. induction l as [|x t IH]; cbn [each_out forallb]; [reflexivity|].
  rewrite H. destruct (ok x); cbn [obind andb]; [exact IH|reflexivity].
Qed.
Lemma h_pat_ok p : h_pat p = if ok_pat p then OK tt else EXN ValueError.
Proof.
  unfold h_pat, ok_pat. destruct p as [|o p]; [reflexivity|]. cbn [length Nat.leb Pattern.is_nil negb andb].
  apply each_all. intros o'. unfold h_occ. apply each_all. intros om. unfold h_note, ok_note. destruct (length om =? 2)%nat; reflexivity.
Qed.
Lemma validate_raw_ok r e :
  Pattern.validate_raw r e = if forallb ok_pat r && forallb ok_pat e then Ok tt else Raise ValueError.
Proof. unfold Pattern.validate_raw. rewrite forallb_app. reflexivity. Qed.
Theorem pattern_validate_tie : forall r e : list (list (list (list Q))),
  arun gen_pattern_validate vext [enc_pats r; enc_pats e] = lift_u (Pattern.validate_raw r e).
Proof.
  intros. unfold enc_pats. ev_tree gen_pattern_validate vext.
  pattern_loop. pattern_loop. cbn [run_dt].
  rewrite !(each_all h_pat ok_pat h_pat_ok).
  rewrite validate_raw_ok.
  destruct (forallb ok_pat r), (forallb ok_pat e); cbn [andb obind lift_u]; reflexivity.
Qed.

(* ---------- hierarchy.validate_hier_intervals ---------- *)
Lemma run_each_then_enum {X} (g : aval -> dt unit -> dt unit) (F : X -> aval) (h : X -> out unit) :
  (forall z x K, run_dt (g (DList [DInt z; F x]) K) = obind (h x) (fun _ => run_dt K)) ->
  forall l z K, run_dt (each_then g (enumerate_from z (map F l)) K) = obind (each_out h l) (fun _ => run_dt K).
Proof.
  intros H l. induction l as [|x t IH]; intros z K; cbn [map enumerate_from each_then each_out obind]; [reflexivity|].
  rewrite H, IH. destruct (h x) as [[]|e|]; reflexivity.
Qed.
Definition h_level (top l : arr) : out unit := lift_u (n <- arr_len l ;; validate_structure_arr top (shape0 top) l n).
Lemma each_levels top rest : each_out (h_level top) rest = lift_u (validate_levels_arr top rest).
Proof.
  induction rest as [|l t IH]; cbn [each_out validate_levels_arr]; [reflexivity|]. rewrite IH. unfold h_level, arr_len.
  destruct (shape l); cbn [bind lift_u obind]; [reflexivity|]. rewrite !lift_bind. reflexivity.
Qed.
Theorem hierarchy_validate_hier_intervals_tie : forall H : list arr,
  arun gen_hierarchy_validate_hier_intervals vext [DList (map DArr H)] = lift_u (validate_hier_arr H).
Proof.
  intros [|top rest]; cbn [map].
  - ev_tree gen_hierarchy_validate_hier_intervals vext. reflexivity.
  - ev_tree gen_hierarchy_validate_hier_intervals vext. cbn [length]. rewrite ?ltb_0_S. cbv iota.
    rewrite (run_each_then_enum _ DArr (h_level top)).
    2:{ intros z x K. ev_lazy gen_hierarchy_validate_hier_intervals vext. cbn [run_dt length]. rewrite ?ltb_0_S, ?repeat_length. cbv iota.
        unfold h_level, arr_len, shape0. destruct (shape x); cbn [is_nil bind lift_u obind nth]; [reflexivity|].
        rewrite ?lift_bind. reflexivity. }
    rewrite each_levels. cbn [run_dt validate_hier_arr]. unfold arr_len.
    destruct (shape top); cbn [is_nil bind lift_u obind]; [reflexivity|].
    destruct (validate_levels_arr top rest) as [[]|x]; reflexivity.
Qed.

(* ---------- the hypotheses are satisfiable; the evaluator's reading on degenerate shapes ----------
   Each outcome below was observed on the implementation (NumPy 2, /repo at HEAD) for the same input. *)
Example wf_example : wf_arr (arr2 [(0, 1)]) = true /\ shape (arr2 [(0, 1)]) <> []. Proof. split; [reflexivity|discriminate]. Qed.
Definition a0 (x : Q) : arr := mkarr 0 [] [x].                   (* np.array(x) *)
Definition ok1 : arr := arr2 [(0, 1)].                           (* np.array([[0., 1.]]) *)
Definition sh (s : list nat) (d : list Q) : arr := mkarr (length s) s d.
Example E01 : arun gen_segment_validate_boundary vext [DArr (a0 3); DArr ok1; DBool false] = EXN TypeError. Proof. reflexivity. Qed.
Example E02 : arun gen_segment_validate_boundary vext [DArr ok1; DArr ok1; DBool true] = OK tt. Proof. reflexivity. Qed.
Example E03 : arun gen_melody_validate_voicing vext [DArr (a0 3); DArr (a0 3)] = EXN IndexError. Proof. reflexivity. Qed.
Example E04 : arun gen_transcription_validate vext [DArr ok1; DArr (a0 3); DArr ok1; DArr (arr1 [3])] = EXN IndexError. Proof. reflexivity. Qed.
Example E05 : arun gen_util_validate_events no_callee [DArr (a0 3); DNum 30000] = EXN ValueError. Proof. reflexivity. Qed.
Example E06 : arun gen_util_validate_events no_callee [DArr (a0 40000); DNum 30000] = EXN ValueError. Proof. reflexivity. Qed.
Example E07 : arun gen_util_validate_events no_callee [DArr (sh [0; 2]%nat []); DNum 30000] = EXN ValueError. Proof. reflexivity. Qed.
Example E08 : arun gen_util_validate_events no_callee [DArr (sh [1; 2]%nat [2; 1]); DNum 30000] = EXN ValueError. Proof. reflexivity. Qed.
Example E09 : arun gen_util_validate_frequencies no_callee [DArr (a0 3); DNum 5000; DNum 20; DBool false] = EXN ValueError. Proof. reflexivity. Qed.
Example E10 : arun gen_util_validate_frequencies no_callee [DArr (arr1 [-440]); DNum 5000; DNum 20; DBool true] = OK tt. Proof. reflexivity. Qed.
Example E11 : arun gen_util_validate_frequencies no_callee [DArr (arr1 [-440]); DNum 5000; DNum 20; DBool false] = OK tt. Proof. reflexivity. Qed.
Example E12 : arun gen_util_validate_frequencies no_callee [DArr (sh [1; 1]%nat [440]); DNum 5000; DNum 20; DBool false] = EXN ValueError. Proof. reflexivity. Qed.
Example E13 : arun gen_util_validate_intervals no_callee [DArr (arr1 [0; 1])] = EXN ValueError. Proof. reflexivity. Qed.
Example E14 : arun gen_util_validate_intervals no_callee [DArr (sh [0; 3]%nat [])] = EXN ValueError. Proof. reflexivity. Qed.
Example E15 : arun gen_util_validate_intervals no_callee [DArr (sh [0; 2]%nat [])] = OK tt. Proof. reflexivity. Qed.
Example E16 : arun gen_util_validate_intervals no_callee [DArr (arr2 [(1, 1)])] = EXN ValueError. Proof. reflexivity. Qed.
Example E17 : arun gen_util_validate_intervals no_callee [DArr (sh [1; 1; 2]%nat [0; 1])] = EXN ValueError. Proof. reflexivity. Qed.
Example E18 : arun gen_segment_validate_structure vext [DArr (arr2 []); DList []; DArr (arr2 []); DList []] = OK tt. Proof. reflexivity. Qed.
Example E19 : arun gen_segment_validate_structure vext [DArr ok1; DList []; DArr ok1; DList [DStr []]] = EXN ValueError. Proof. reflexivity. Qed.
Example E20 : arun gen_segment_validate_structure vext [DArr (arr2 [(1 # 2, 1)]); DList [DStr []]; DArr ok1; DList [DStr []]] = EXN ValueError. Proof. reflexivity. Qed.
Example E21 : arun gen_segment_validate_structure vext [DArr ok1; DList [DStr []]; DArr (arr2 [(0, 2)]); DList [DStr []]] = EXN ValueError. Proof. reflexivity. Qed.
Example E22 : arun gen_segment_validate_structure vext [DArr ok1; DList [DStr []]; DArr (arr2 []); DList []] = OK tt. Proof. reflexivity. Qed.
Example E23 : arun gen_alignment_validate vext [DList [DNum 1; DNum 2]; DArr (arr1 [1; 2])] = EXN ValueError. Proof. reflexivity. Qed.
Example E24 : arun gen_alignment_validate vext [DArr (sh [1; 2]%nat [1; 2]); DArr (arr1 [1; 2])] = EXN ValueError. Proof. reflexivity. Qed.
Example E25 : arun gen_alignment_validate vext [DArr (arr1 []); DArr (arr1 [])] = EXN ValueError. Proof. reflexivity. Qed.
Example E26 : arun gen_alignment_validate vext [DArr (arr1 [1; 2]); DArr (arr1 [2; 1])] = EXN ValueError. Proof. reflexivity. Qed.
Example E27 : arun gen_alignment_validate vext [DArr (arr1 [1; 2]); DArr (arr1 [1; 1])] = OK tt. Proof. reflexivity. Qed.
Example E28 : arun gen_tempo_validate_tempi vext [DXArr [NaN; Fin 60]; DBool true] = EXN ValueError. Proof. reflexivity. Qed.
Example E29 : arun gen_tempo_validate_tempi vext [DXArr [Fin 0; Fin 0]; DBool true] = EXN ValueError. Proof. reflexivity. Qed.
Example E30 : arun gen_tempo_validate_tempi vext [DXArr [Fin 0; Fin 0]; DBool false] = OK tt. Proof. reflexivity. Qed.
Example E31 : arun gen_tempo_validate_tempi vext [DXArr [NInf; Fin 60]; DBool false] = EXN ValueError. Proof. reflexivity. Qed.
Example E32 : arun gen_tempo_validate vext [DXArr [Fin 60; Fin 120]; DNum (3 # 2); DXArr [Fin 60; Fin 120]] = EXN ValueError. Proof. reflexivity. Qed.
Example E33 : arun gen_pattern_validate vext [enc_pats [[]]; enc_pats []] = EXN ValueError. Proof. reflexivity. Qed.
Example E34 : arun gen_pattern_validate vext [enc_pats [[[[0; 60; 1]]]]; enc_pats []] = EXN ValueError. Proof. reflexivity. Qed.
Example E35 : arun gen_pattern_validate vext [enc_pats [[[[0; 60]]]]; enc_pats []] = OK tt. Proof. reflexivity. Qed.
Example E36 : arun gen_chord_validate vext [DList [DStr [67%nat]]; DList []] = EXN ValueError. Proof. reflexivity. Qed.
Example E37 : arun gen_chord_validate vext [DList [DStr [67%nat]; DStr [72%nat]]; DList [DStr [67%nat]; DStr [67%nat]]] = EXN InvalidChord. Proof. vm_compute. reflexivity. Qed.
Example E38 : arun gen_multipitch_validate vext [DArr (arr1 [0; 1]); DList [DArr (arr1 [220])]; DArr (arr1 []); DList []] = EXN ValueError. Proof. reflexivity. Qed.
Example E39 : arun gen_multipitch_validate vext [DArr (arr1 [0]); DList [DArr (sh [1; 1]%nat [220])]; DArr (arr1 []); DList []] = EXN ValueError. Proof. reflexivity. Qed.
Example E40 : arun gen_transcription_velocity_validate vext [DArr ok1; DArr (arr1 [220]); DArr (arr1 [-1]); DArr ok1; DArr (arr1 [220]); DArr (arr1 [1])] = EXN ValueError. Proof. reflexivity. Qed.
Example E41 : arun gen_transcription_velocity_validate vext [DArr ok1; DArr (arr1 [220]); DArr (arr1 [1; 2]); DArr ok1; DArr (arr1 [220]); DArr (arr1 [1])] = EXN ValueError. Proof. reflexivity. Qed.
Example E42 : arun gen_transcription_validate vext [DArr ok1; DArr (arr1 [0]); DArr ok1; DArr (arr1 [220])] = EXN ValueError. Proof. reflexivity. Qed.
Example E43 : arun gen_melody_validate vext [DArr (a0 3); DArr (a0 3); DArr (a0 3); DArr (a0 3)] = EXN IndexError. Proof. reflexivity. Qed.
Example E44 : arun gen_melody_validate_voicing vext [DArr (arr1 [1; 3 # 2]); DArr (arr1 [1; 1])] = EXN ValueError. Proof. reflexivity. Qed.
Definition hier (H : list arr) : list aval := [DList (map DArr H)].
Example E45 : arun gen_hierarchy_validate_hier_intervals vext (hier [a0 3]) = EXN TypeError. Proof. reflexivity. Qed.
Example E46 : arun gen_hierarchy_validate_hier_intervals vext (hier []) = EXN IndexError. Proof. reflexivity. Qed.
Example E47 : arun gen_hierarchy_validate_hier_intervals vext (hier [ok1; a0 3]) = EXN TypeError. Proof. reflexivity. Qed.
Example E48 : arun gen_hierarchy_validate_hier_intervals vext (hier [arr1 [0; 1]; a0 3]) = EXN TypeError. Proof. reflexivity. Qed.
Example E49 : arun gen_hierarchy_validate_hier_intervals vext (hier [ok1; arr2 [(0, 2)]; a0 3]) = EXN ValueError. Proof. vm_compute. reflexivity. Qed.
Example E50 : arun gen_hierarchy_validate_hier_intervals vext (hier [ok1; ok1; a0 3]) = EXN TypeError. Proof. vm_compute. reflexivity. Qed.
Example E51 : arun gen_hierarchy_validate_hier_intervals vext (hier [arr1 [0; 1]]) = OK tt. Proof. reflexivity. Qed.
Example E52 : arun gen_segment_validate_boundary vext [DArr (arr1 [0; 1]); DArr (a0 3); DBool false] = EXN TypeError. Proof. reflexivity. Qed.
Example E53 : arun gen_transcription_validate_intervals vext [DArr (a0 3); DArr ok1] = EXN ValueError. Proof. reflexivity. Qed.
Example E54 : arun gen_melody_validate vext [DArr (arr1 [1]); DArr (arr1 [1; 2]); DArr (a0 (1 # 2)); DArr (arr1 [1])] = EXN ValueError. Proof. reflexivity. Qed.
Example E55 : arun gen_melody_validate vext [DArr (arr1 [1]); DArr (arr1 [1]); DArr (arr1 [1]); DArr (a0 (1 # 2))] = EXN IndexError. Proof. reflexivity. Qed.
Example E56 : arun gen_transcription_velocity_validate vext [DArr ok1; DArr (arr1 [220]); DArr (a0 3); DArr ok1; DArr (arr1 [220]); DArr (arr1 [1])] = EXN IndexError. Proof. reflexivity. Qed.
Example E57 : arun gen_transcription_validate vext [DArr ok1; DArr (sh [1; 2]%nat [220; -1]); DArr ok1; DArr (arr1 [220])] = EXN ValueError. Proof. reflexivity. Qed.

Print Assumptions validate_events_tie.
Print Assumptions validate_events_tie_int.
Print Assumptions validate_intervals_tie.
Print Assumptions validate_frequencies_tie.
Print Assumptions onset_validate_tie.
Print Assumptions beat_validate_tie.
Print Assumptions segment_validate_boundary_tie.
Print Assumptions segment_validate_structure_tie.
Print Assumptions chord_validate_tie.
Print Assumptions melody_validate_voicing_tie.
Print Assumptions melody_validate_tie.
Print Assumptions multipitch_validate_tie.
Print Assumptions transcription_validate_intervals_tie.
Print Assumptions transcription_validate_tie.
Print Assumptions transcription_velocity_validate_tie.
Print Assumptions tempo_validate_tempi_tie.
Print Assumptions tempo_validate_tie.
Print Assumptions key_validate_tie.
Print Assumptions pattern_validate_tie.
Print Assumptions alignment_validate_tie.
Print Assumptions hierarchy_validate_hier_intervals_tie.
Print Assumptions melody_validate_voicing_tie_1d.
Print Assumptions melody_validate_tie_1d.
Print Assumptions transcription_validate_tie_1d.
Print Assumptions transcription_velocity_validate_tie_1d.
Print Assumptions alignment_validate_tie_notarray_ref.
Print Assumptions alignment_validate_tie_notarray_est.
