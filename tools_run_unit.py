#!/usr/bin/env python3
"""Run single correspondence units against /repo (or VERIF_REPO) and print a one-line summary each:  tools_run_unit.py [--tier t] unit ..."""
import os, sys
here = os.path.dirname(os.path.abspath(__file__))
os.environ.setdefault('PYTHONHASHSEED', '0')
os.environ.setdefault('MIR_EVAL_VERIF', '1')
for k in ('OMP_NUM_THREADS', 'OPENBLAS_NUM_THREADS', 'MKL_NUM_THREADS'):
    os.environ.setdefault(k, '1')
sys.path.insert(0, here)
sys.path.insert(0, os.environ.get('VERIF_REPO', '/repo'))
from lib import runner
tier = 'quick'
args = sys.argv[1:]
if args[:1] == ['--tier']:
    tier, args = args[1], args[2:]
for u in args:
    r = runner.unit_report(u, tier)
    print(u, 'cases', r.get('cases'), 'nontrivial', r.get('distinct_nontrivial'), 'mismatches', r.get('mismatches'), 'errors', r.get('errors'), 'fp', r.get('fingerprint_changed'))
    for b in r.get('bad_cases', [])[:3]:
        print('   bad:', str(b)[:600])
