#!/venv/bin/python
"""Run one correspondence unit outside a check:  tools_run_unit.py <unit> [quick|thorough]"""
import importlib, json, os, sys
if os.environ.get('PYTHONHASHSEED') != '0':
    os.environ['PYTHONHASHSEED'] = '0'
    os.environ['PYTHONPATH'] = '/repo'
    os.environ['PYTHONDONTWRITEBYTECODE'] = '1'
    for v in ('OMP_NUM_THREADS', 'OPENBLAS_NUM_THREADS', 'MKL_NUM_THREADS'):
        os.environ[v] = '1'
    os.execv(sys.executable, [sys.executable] + sys.argv)
HERE = os.path.dirname(os.path.abspath(__file__))
sys.path.insert(0, HERE); sys.path.insert(0, '/repo')
sys.dont_write_bytecode = True
from lib import core
u = importlib.import_module('harness.units.' + sys.argv[1]).UNIT
rep = core.run_unit(u, sys.argv[2] if len(sys.argv) > 2 else 'quick')
rep.pop('mirrors', None)
rep['samples'] = rep.get('samples', [])[:2]
print(json.dumps(rep, indent=1, default=str)[:6000])
sys.exit(1 if rep['mismatches'] or rep['errors'] else 0)
