"""Regenerate coq/Gen/*.v from /repo's working tree (translator, DESIGN.md section 3.1).

Each translator is a function returning {filename: text}. A translator that meets syntax outside
its accepted fragment raises TranslationError; the previous Gen file is then *removed* so that
nothing can be proved against a stale model, and the failure is reported to the caller.
"""
import importlib
import os
import sys
import traceback

VERIF = os.path.dirname(os.path.dirname(os.path.abspath(__file__)))
GEN = os.path.join(VERIF, 'coq', 'Gen')
TRANSLATORS = ['tables', 'chordre', 'defaults', 'evaluate', 'writesites', 'chordrules', 'scalarfuncs', 'vecfuncs', 'wrapfuncs',
               'validfuncs', 'chordparse', 'wrapfuncs2', 'patternfuncs', 'beatfuncs', 'hierfuncs', 'matchfuncs', 'notefuncs', 'intervalfuncs', 'framefuncs', 'iofuncs', 'corefuncs']


class TranslationError(Exception):
    pass


def regen(verbose=False):
    os.makedirs(GEN, exist_ok=True)
    failures = {}
    written = []
    for name in TRANSLATORS:
        try:
            mod = importlib.import_module('translator.' + name)
        except ModuleNotFoundError as e:
            if e.name == 'translator.' + name:
                continue
            raise
        try:
            files = mod.generate()
        except Exception as e:  # fail closed
            failures[name] = '%s: %s' % (type(e).__name__, e)
            if verbose:
                traceback.print_exc()
            for fn in getattr(mod, 'OUTPUTS', []):
                p = os.path.join(GEN, fn)
                stub = '(* translator %s failed: model withdrawn *)\nDefinition translation_failed := tt.\n' % name
                if not os.path.exists(p) or open(p).read() != stub:
                    open(p, 'w').write(stub)
            continue
        for fn, text in files.items():
            p = os.path.join(GEN, fn)
            if not os.path.exists(p) or open(p).read() != text:
                open(p, 'w').write(text)
                written.append(fn)
    return failures, written


if __name__ == '__main__':
    sys.path.insert(0, VERIF)
    f, w = regen(verbose=True)
    for k, v in f.items():
        print('translator %s FAILED: %s' % (k, v))
    print('regenerated:', w)
