"""The per-property check flow (DESIGN.md section 4.2 / 4.3)."""
import importlib
import json
import os
import random
import sys
import time
import traceback

from . import core
from . import regen as regen_mod


def load_prop(pid):
    return importlib.import_module('props.' + pid)


def load_unit(name):
    mod = importlib.import_module('harness.units.' + name)
    return mod.UNIT


def _matches_known(finding, known):
    """A failing input is 'listed' only when an entry's function and relation agree and the
    entry's pattern predicate (props.<id>.known_match) accepts the concrete input."""
    for k in known:
        if k.get('status') != 'finding':
            continue
        if k.get('function') == finding.get('function') and k.get('relation') == finding.get('relation'):
            return k
    return None


def unit_report(uname, tier):
    """Run one correspondence unit (fingerprint-escalated) and return its report; never raises."""
    try:
        unit = load_unit(uname)
        changed = core.changed_functions(unit.mirrors)
        rep = core.run_unit(unit, tier, escalate=bool(changed))
        rep['fingerprint_changed'] = ['%s::%s' % c for c in changed]
    except Exception:  # harness crash = the correspondence no longer checks
        rep = {'unit': uname, 'cases': 0, 'distinct_nontrivial': 0, 'mismatches': 0,
               'errors': ['harness exception: %s' % traceback.format_exc()[-1500:]], 'bad_cases': [], 'samples': [],
               'fingerprint_changed': []}
    return rep


def run_units_parallel(unames, tier, width=4):
    """Each unit in its own interpreter (lib.unit_worker), at most `width` at a time, sharing the cores."""
    import subprocess
    if len(unames) <= 1:
        return {u: unit_report(u, tier) for u in unames}
    env = dict(os.environ)
    env['VERIF_NCPU'] = str(max(2, core.NCPU // min(width, len(unames))))
    pending = list(unames)
    running = []
    out = {}
    while pending or running:
        while pending and len(running) < width:
            u = pending.pop(0)
            pr = subprocess.Popen([sys.executable, '-m', 'lib.unit_worker', u, tier], cwd=core.VERIF, env=env,
                                  stdout=subprocess.PIPE, stderr=subprocess.PIPE, text=True)
            running.append((u, pr))
        still = []
        for u, pr in running:
            if pr.poll() is None:
                still.append((u, pr))
                continue
            so, se = pr.communicate()
            try:
                out[u] = json.loads(so[so.index('@@REPORT@@') + 10:])
            except Exception:
                out[u] = {'unit': u, 'cases': 0, 'distinct_nontrivial': 0, 'mismatches': 0, 'bad_cases': [], 'samples': [],
                          'errors': ['unit worker failed (rc=%s): %s' % (pr.returncode, (se or so)[-1200:])], 'fingerprint_changed': []}
        running = still
        if running:
            time.sleep(0.2)
    return out


def run_check(pid, tier):
    t0 = time.time()
    prop = load_prop(pid)
    broken = []       # items that no longer check
    failing = []      # concrete failing inputs (dicts with function, relation, input, observed)
    notes = []
    obligations = 0
    discharged = 0
    trusted = [
        'Coq 8.16.1 kernel + coqc; vm_compute for finite sweeps and for every correspondence comparison; native_compute not used',
        'translator (translator/*.py, Python ast / re._parser) for the generated parts of the model (coq/Gen)',
        'correspondence harness (harness/units/*.py): case generators, canonicalisation float->exact Q, exception class->tag, emitter of the case files',
        'modelled, not verified: IEEE rounding (model is exact rational arithmetic on the exact input values), NumPy/SciPy primitives as documented, CPython semantics',
    ]
    checker_cmds = []

    # 1. regenerate the translated parts of the model from /repo's working tree
    failures, written = regen_mod.regen()
    for name, msg in failures.items():
        if name in getattr(prop, 'TRANSLATORS', []):
            broken.append({'kind': 'translator', 'name': name, 'detail': msg})
    if written:
        notes.append('regenerated from /repo: %s' % ', '.join(written))

    # 2. hygiene
    hy = core.hygiene()
    if hy:
        print('BROKEN-MACHINERY: forbidden construct in the Coq development: %s' % hy[:5])
        return 2

    # 3. build the proofs this property depends on
    target = 'Properties/%s.vo' % pid
    unit_targets = []
    for uname in getattr(prop, 'UNITS', []):
        try:
            for r in load_unit(uname).requires:
                t = r.replace('ME.', '').replace('.', '/') + '.vo'
                if t not in unit_targets:
                    unit_targets.append(t)
        except Exception:
            notes.append('cannot load unit %s: %s' % (uname, traceback.format_exc()[-300:]))
    ok, log = core.make([target])
    if unit_targets:
        uok, ulog = core.make(['-k'] + unit_targets)
        if not uok:
            notes.append('some model files needed by the correspondence units do not build: %s' % (core.first_coq_error(ulog),))
    checker_cmds.append('make -C coq -j16 %s   (coq_makefile, full .vo build)' % target)
    open(os.path.join(core.LOGS, '%s.make.log' % pid), 'w').write(log)
    thms = []
    if not ok:
        err = core.first_coq_error(log) or {'file': '?', 'line': 0, 'error': log[-800:]}
        vf = os.path.join(core.COQ, err['file']) if not os.path.isabs(err['file']) else err['file']
        err['theorem'] = core.theorem_at(vf, err['line'])
        broken.append({'kind': 'proof', 'name': '%s:%s' % (err['file'], err.get('theorem')), 'detail': err})
    # 4. the property theorems and what they assume
    if ok:
        pok, thms, plog = core.property_theorems(pid)
        checker_cmds.append('coqc -Q coq ME coq/Properties/%s.v   (Print Assumptions under every theorem)' % pid)
        open(os.path.join(core.LOGS, '%s.props.log' % pid), 'w').write(plog)
        if not pok:
            err = core.first_coq_error(plog) or {'file': 'Properties/%s.v' % pid, 'line': 0, 'error': plog[-800:]}
            broken.append({'kind': 'proof', 'name': 'Properties/%s.v' % pid, 'detail': err})
        for t in thms:
            obligations += 1
            bad_ax = [a for a in t['assumptions'] if not core.axiom_allowed(a)]
            if bad_ax:
                print('BROKEN-MACHINERY: theorem %s depends on non-whitelisted axioms %s' % (t['name'], bad_ax))
                return 2
            discharged += 1
    else:
        # count the declared theorems as undischarged obligations
        import re
        try:
            txt = open(os.path.join(core.COQ, 'Properties', pid + '.v')).read()
            obligations += len(re.findall(r'^Theorem\s+\w+', txt, re.M))
        except OSError:
            pass

    # 5. correspondence units
    unit_reports = []
    total_cases = 0
    total_nontrivial = 0
    unames = list(getattr(prop, 'UNITS', []))
    reports = run_units_parallel(unames, tier)
    for uname in unames:
        rep = reports[uname]
        unit_reports.append(rep)
        obligations += 1
        total_cases += rep['cases']
        total_nontrivial += rep['distinct_nontrivial']
        if rep['mismatches'] or rep['errors']:
            broken.append({'kind': 'correspondence', 'name': uname,
                           'detail': {'mismatches': rep['mismatches'], 'errors': rep['errors'][:2],
                                      'bad_cases': rep['bad_cases']}})
        else:
            discharged += 1
    checker_cmds.append('coqc -Q coq ME build/corr/<unit>_<shard>.v   (Eval vm_compute in (length cases, bad_indices check_case cases))')

    # 6. refuted witnesses must still fail on the implementation (else the finding is stale)
    refuted_reports = []
    for r in getattr(prop, 'REFUTED', []):
        obligations += 1
        try:
            with core.deadline(120):
                still = bool(r['still_fails']())
        except Exception:
            still = False
            notes.append('refuted witness %s: replay crashed: %s' % (r['theorem'], traceback.format_exc()[-400:]))
        refuted_reports.append({'theorem': r['theorem'], 'function': r['function'], 'witness': r['witness'],
                                'still_fails_on_implementation': still})
        if still:
            discharged += 1
        else:
            broken.append({'kind': 'stale-refutation', 'name': r['theorem'],
                           'detail': 'the implementation no longer fails on the recorded witness %s; the model no longer mirrors the code' % (r['witness'],)})

    # 7. property oracle on the implementation (supporting search, DESIGN 4.3): at the mismatching
    #    inputs first, then a sweep.
    known = core.known_findings(pid)
    oracle_rep = {'evaluations': 0, 'wall_s': 0}
    if hasattr(prop, 'oracle_at'):
        for b in broken:
            if b['kind'] == 'correspondence':
                for bc in b['detail'].get('bad_cases', []):
                    try:
                        with core.deadline(60):
                            f = prop.oracle_at(b['name'], bc['case'], bc['impl'])
                    except Exception:
                        f = None
                        notes.append('oracle_at crashed: %s' % traceback.format_exc()[-400:])
                    if f:
                        failing.append(f)
    if hasattr(prop, 'diagnose'):
        for b in broken:
            if b['kind'] in ('proof', 'translator', 'stale-refutation'):
                try:
                    with core.deadline(240):
                        f = prop.diagnose(b)
                except Exception:
                    f = None
                    notes.append('diagnose crashed: %s' % traceback.format_exc()[-400:])
                if f:
                    failing.extend(f if isinstance(f, list) else [f])
    if hasattr(prop, 'oracle_search'):
        budget = getattr(prop, 'ORACLE_BUDGET', {'quick': 15, 'thorough': 120})[tier]
        if broken:
            budget *= 2
        rng = random.Random('oracle/%s/%d' % (pid, core.seed()))
        ts = time.time()
        try:
            with core.deadline(max(600, budget * 6)):     # generous: a slow machine must not look like a hanging implementation
                found, nev = prop.oracle_search(rng, budget, tier)
        except core.Timeout:
            found, nev = [], 0
            notes.append('oracle_search exceeded its deadline: the implementation does not answer in time on some generated input')
            broken.append({'kind': 'oracle-timeout', 'name': 'oracle_search',
                           'detail': 'a call of the implementation did not return within %d s during the oracle search' % max(600, budget * 6)})
        except Exception:
            found, nev = [], 0
            notes.append('oracle_search crashed: %s' % traceback.format_exc()[-600:])
            broken.append({'kind': 'oracle', 'name': 'oracle_search', 'detail': traceback.format_exc()[-600:]})
        oracle_rep = {'evaluations': nev, 'wall_s': round(time.time() - ts, 2), 'failing_inputs': len(found)}
        failing.extend(found)

    # 8. verdict
    new_failing = []
    known_hit = {}
    for f in failing:
        k = None
        if hasattr(prop, 'known_match'):
            k = prop.known_match(f, known)
        if k is not None:
            known_hit[k['id']] = k
        else:
            new_failing.append(f)
    violations = 0
    lines = []
    if new_failing:
        seen = set()
        for f in new_failing:
            key = (f.get('function'), f.get('relation'))
            if key in seen:
                continue
            seen.add(key)
            path = core.write_replay(pid, {'kind': 'failing-input', 'finding': f, 'broken': broken})
            lines.append('VIOLATION property=%s replay=%s' % (pid, path))
            violations += 1
    elif broken:
        path = core.write_replay(pid, {'kind': 'no-longer-checks', 'broken': broken,
                                       'note': 'no failing input was found by the diagnosis; the listed theorem / correspondence no longer checks'})
        lines.append('VIOLATION property=%s replay=%s no-failing-input-found' % (pid, path))
        violations += 1
    # listed findings are announced on every run (they are re-confirmed by step 6)
    for k in known:
        if k.get('status') == 'finding':
            print('KNOWN-FINDING: property=%s %s' % (pid, k.get('text', k.get('id'))))

    samples = []
    for rep in unit_reports:
        samples.extend(rep.get('samples', [])[:2])
    samples.extend({'theorem': t['name'], 'statement': t['statement'][:600]} for t in thms[:3])
    axioms = sorted({a for t in thms for a in t['assumptions']})
    coverage = {
        'obligations': obligations, 'discharged': discharged,
        'checker_cmd': ' ; '.join(checker_cmds),
        'trusted_base': trusted + (['axioms reported by Print Assumptions on this run: ' + ', '.join(axioms)] if axioms
                                   else ['Print Assumptions: every property theorem is closed under the global context (no axioms)']),
        'theorems': [{'name': t['name'], 'closed': t['closed'], 'axioms': t['assumptions']} for t in thms],
        'evaluations': total_cases + oracle_rep.get('evaluations', 0),
        'distinct_nontrivial': total_nontrivial,
        'rule': 'correspondence cases = corpus + exhaustive small scope + seeded generator per unit; non-trivial = distinct '
                '(input, implementation outcome) pairs accepted by the unit\'s nontrivial() predicate (non-empty inputs that '
                'exercise the modelled branch), counted on this run',
        'samples': samples if samples else [{'note': 'no correspondence unit for this property'}],
        'units': [{k: v for k, v in rep.items() if k not in ('samples', 'bad_cases')} for rep in unit_reports],
        'refuted_witnesses_replayed': refuted_reports,
        'oracle_search': oracle_rep,
        'broken': broken,
        'notes': notes,
        'known_findings_listed': [k['id'] for k in known if k.get('status') == 'finding'],
        'not_covered': getattr(prop, 'NOT_COVERED', ''),
    }
    core.write_evidence(pid, tier, coverage, getattr(prop, 'ASSUMPTIONS', []), time.time() - t0, violations)
    for l in lines:
        print(l)
    if not lines:
        print('OK property=%s tier=%s theorems=%d units=%d cases=%d wall=%.1fs' % (
            pid, tier, len(thms), len(unit_reports), total_cases, time.time() - t0))
    return 1 if lines else 0


def replay(pid, path):
    prop = load_prop(pid)
    data = json.load(open(path))
    print(json.dumps(data, indent=1)[:4000])
    if hasattr(prop, 'replay'):
        return prop.replay(data)
    return 0
