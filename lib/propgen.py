"""Helpers shared by props/Cxx.py: budgeted oracle sweeps."""
import time
import traceback


def budgeted(sweeps):
    """sweeps: list of callables (rng, n) -> list of findings (each evaluation counted as n).
    Returns an oracle_search(rng, budget, tier) that cycles through them until the budget is used."""
    def oracle_search(rng, budget, tier):
        t0 = time.time()
        n = 0
        chunk = 40 if tier == 'quick' else 200
        rounds = 0
        while time.time() - t0 < budget and rounds < (3 if tier == 'quick' else 30):
            rounds += 1
            for sw in sweeps:
                if time.time() - t0 > budget:
                    break
                fs = sw(rng, chunk)
                n += chunk
                if fs:
                    return list(fs)[:3], n
        return [], n
    return oracle_search


def first_finding(checks):
    """checks: iterable of thunks returning a finding or None."""
    out = []
    for c in checks:
        f = c()
        if f:
            out.append(f)
            break
    return out
