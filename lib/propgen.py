"""Helpers shared by props/Cxx.py: budgeted oracle sweeps."""
import time
import traceback


def budgeted(sweeps):
    """sweeps: list of callables (rng, n) -> list of findings (each evaluation counted as n).
    Returns an oracle_search(rng, budget, tier) that cycles through them until the budget is used."""
    def oracle_search(rng, budget, tier):
        t0 = time.time()
        n = 0
        chunk = 40 if tier == 'quick' else 200
        rounds = 0
        while time.time() - t0 < budget and rounds < (3 if tier == 'quick' else 30):
            rounds += 1
            for sw in sweeps:
                if time.time() - t0 > budget:
                    break
                fs = sw(rng, chunk)
                n += chunk
                if fs:
                    return list(fs)[:3], n
        return [], n
    return oracle_search


def first_finding(checks):
    """checks: iterable of thunks returning a finding or None."""
    out = []
    for c in checks:
        f = c()
        if f:
            out.append(f)
            break
    return out


def definitional_oracle_at(units, relation):
    """For properties of the form "the code equals its definition": the Gallina model of these units is PROVED equal to the
    declarative definition, so an input on which the implementation's outcome differs from the model's is itself a
    concrete input on which the property fails (it is the shrunk mismatching case of the correspondence)."""
    def oracle_at(unit, case, impl):
        if unit in units:
            return {'function': 'unit:' + unit, 'relation': relation, 'input': case, 'observed': impl,
                    'why': 'the implementation differs, on this input, from the model that is proved equal to the definition (shrunk correspondence mismatch)'}
        return None
    return oracle_at


def point_oracle(pid):
    """oracle_at for property pid: run the point checks at the mismatching input; keep findings that speak about pid and are not known"""
    def oracle_at(unit, case, impl):
        from harness.oracles import at_point, all as ALL
        for f in at_point.probe(unit, case, impl):
            if pid in ALL.classify(f) and ALL.is_known(f) is None:
                return f
        return None
    return oracle_at


def chained(*oracles):
    """oracle_at that asks each oracle in turn and returns the first finding (point oracle first, then the definitional one);
    a crash of one oracle does not hide the answer of the next."""
    def oracle_at(unit, case, impl):
        for o in oracles:
            try:
                f = o(unit, case, impl)
            except Exception:  # noqa
                f = None
            if f:
                return f
        return None
    return oracle_at
