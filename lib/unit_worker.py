"""Run one correspondence unit in its own interpreter and print its report as JSON (used by lib.runner)."""
import json
import os
import sys

HERE = os.path.dirname(os.path.dirname(os.path.abspath(__file__)))
sys.path.insert(0, HERE)
sys.path.insert(0, os.environ.get('VERIF_REPO', '/repo'))
sys.dont_write_bytecode = True
from lib import runner  # noqa

rep = runner.unit_report(sys.argv[1], sys.argv[2])
sys.stdout.write('@@REPORT@@' + json.dumps(rep, default=str))
