"""Shared machinery of the /verif checks (see DESIGN.md section 4).

Everything a check does goes through here: regenerate the translator output from /repo's working
tree, hygiene-grep the Coq development, build it, collect Print Assumptions, run correspondence
units (implementation under this interpreter, comparison inside Coq by vm_compute), diagnose, and
write the evidence file.
"""
import ast
import fcntl
import hashlib
import json
import os
import random
import re
import signal
import subprocess
import sys
import time
from fractions import Fraction

VERIF = os.path.dirname(os.path.dirname(os.path.abspath(__file__)))
REPO = os.environ.get('VERIF_REPO', '/repo')   # VERIF_REPO: only for exercising the checks against a scratch copy
COQ = os.path.join(VERIF, 'coq')
BUILD = os.path.join(VERIF, 'build')
CORR = os.path.join(BUILD, 'corr')
REPLAY = os.path.join(BUILD, 'replay')
LOGS = os.path.join(BUILD, 'logs')
EVID = os.path.join(VERIF, 'evidence')
NCPU = int(os.environ.get('VERIF_NCPU', '16'))

for d in (BUILD, CORR, REPLAY, LOGS, EVID):
    os.makedirs(d, exist_ok=True)

if REPO not in sys.path:
    sys.path.insert(0, REPO)


def seed():
    try:
        return int(os.environ.get('VERIF_SEED', '0'))
    except ValueError:
        return 0


# ----------------------------------------------------------------------------------------------
# Coq literal helpers
# ----------------------------------------------------------------------------------------------

def cq_bool(b):
    return 'true' if b else 'false'


def cq_list(items):
    return '[' + ';'.join(items) + ']'


def cq_nat(n):
    assert n >= 0
    return str(int(n))


def cq_Z(n):
    n = int(n)
    return '(%d)' % n if n < 0 else str(n)


def cq_Q(x):
    """Exact rational literal for a float / int / Fraction."""
    f = x if isinstance(x, Fraction) else Fraction(x)
    return '(%d#%d)' % (f.numerator, f.denominator)


def cq_opt(x, f):
    return 'None' if x is None else '(Some %s)' % f(x)


def cq_codes(s):
    """A Python str as a list of character codes (N)."""
    return cq_list([str(ord(c)) for c in s])


def cq_pair(a, b):
    return '(%s,%s)' % (a, b)


EXN = {'ValueError': 'ValueError', 'InvalidChordException': 'InvalidChord', 'IndexError': 'IndexError',
       'ZeroDivisionError': 'ZeroDivisionError', 'TypeError': 'TypeError', 'KeyError': 'KeyError'}


def cq_exn(name):
    return EXN.get(name, 'OtherExn')


def cq_res(out, f):
    """out = ['ok', value] | ['exc', class name]  ->  Coq `res` literal."""
    if out[0] == 'ok':
        return '(Ok %s)' % f(out[1])
    return '(Raise %s)' % cq_exn(out[1])


def cq_str(s):
    return '(' + cq_codes(s) + ')%nat'


# ----------------------------------------------------------------------------------------------
# running Coq
# ----------------------------------------------------------------------------------------------

def sh(cmd, timeout=600, cwd=None, env=None):
    t0 = time.time()
    try:
        p = subprocess.run(cmd, shell=isinstance(cmd, str), cwd=cwd, env=env, timeout=timeout,
                           stdout=subprocess.PIPE, stderr=subprocess.STDOUT, text=True, errors='replace')
        return p.returncode, p.stdout, time.time() - t0
    except subprocess.TimeoutExpired as e:
        out = e.stdout or ''
        if isinstance(out, bytes):
            out = out.decode(errors='replace')
        return 124, out + '\n[timeout after %ss]' % timeout, time.time() - t0


class BuildLock:
    def __enter__(self):
        self.f = open(os.path.join(BUILD, '.lock'), 'w')
        fcntl.flock(self.f, fcntl.LOCK_EX)
        return self

    def __exit__(self, *a):
        fcntl.flock(self.f, fcntl.LOCK_UN)
        self.f.close()


HYGIENE_RE = re.compile(
    r'\b(Admitted|admit|Axiom|Axioms|Parameter|Parameters|Conjecture|Conjectures|Admit Obligations|'
    r'Unset Guard Checking|Unset Positivity Checking|Unset Universe Checking|bypass_check|'
    r'type-in-type|impredicative-set)\b')


def strip_coq_comments(text):
    out = []
    depth = 0
    i = 0
    n = len(text)
    while i < n:
        if text.startswith('(*', i):
            depth += 1
            i += 2
        elif text.startswith('*)', i) and depth > 0:
            depth -= 1
            i += 2
        else:
            if depth == 0:
                out.append(text[i])
            i += 1
    return ''.join(out)


def hygiene():
    """Return a list of offending (file, line, word); empty when the development is clean."""
    bad = []
    for root, _, files in os.walk(COQ):
        for fn in files:
            if not fn.endswith('.v'):
                continue
            p = os.path.join(root, fn)
            txt = strip_coq_comments(open(p).read())
            # Variable / Hypothesis outside a section
            depth = 0
            for ln, line in enumerate(txt.split('\n'), 1):
                m = HYGIENE_RE.search(line)
                if m:
                    bad.append((os.path.relpath(p, VERIF), ln, m.group(1)))
                s = line.strip()
                if re.match(r'Section\s+\w+', s):
                    depth += 1
                elif re.match(r'End\s+\w+', s) and depth > 0:
                    depth -= 1
                elif depth == 0 and re.match(r'(Variable|Variables|Hypothesis|Hypotheses|Context)\b', s):
                    bad.append((os.path.relpath(p, VERIF), ln, s.split()[0] + ' outside a section'))
    return bad


def coq_project_current():
    """(Re)write _CoqProject + Makefile when the file list changed."""
    files = []
    for sub in ('Model', 'Gen', 'Proofs', 'Properties'):
        for root, _, fs in os.walk(os.path.join(COQ, sub)):
            for fn in fs:
                if fn.endswith('.v'):
                    files.append(os.path.relpath(os.path.join(root, fn), COQ))
    files.sort()
    text = '-Q . ME\n' + '\n'.join(files) + '\n'
    cp = os.path.join(COQ, '_CoqProject')
    old = open(cp).read() if os.path.exists(cp) else None
    if old != text or not os.path.exists(os.path.join(COQ, 'Makefile')):
        open(cp, 'w').write(text)
        sh('coq_makefile -f _CoqProject -o Makefile', cwd=COQ)


def make(targets, timeout=1500):
    """make the given .vo targets (paths relative to coq/). Returns (ok, log)."""
    with BuildLock():
        coq_project_current()
        rc, out, dt = sh(['make', '-j%d' % NCPU] + list(targets), timeout=timeout, cwd=COQ)
    return rc == 0, out


def coqc_file(path, timeout=600, extra=()):
    rc, out, dt = sh(['coqc', '-Q', COQ, 'ME'] + list(extra) + [path], timeout=timeout)
    return rc, out, dt


def coq_eval(requires, exprs, timeout=300, scope=None):
    """Evaluate Coq terms by vm_compute in a scratch file; returns the list of printed results (raw text)."""
    path = os.path.join(CORR, 'eval_%d_%d.v' % (os.getpid(), int(time.time() * 1000) % 100000))
    with open(path, 'w') as f:
        f.write('From Coq Require Import List ZArith QArith String Bool Arith NArith.\n')
        for r in requires:
            f.write('From ME Require Import %s.\n' % r.replace('ME.', ''))
        f.write('Import ListNotations.\n')
        if scope:
            f.write('Open Scope %s.\n' % scope)
        for i, e in enumerate(exprs):
            f.write('Definition ev_%d := %s.\nEval vm_compute in ev_%d.\n' % (i, e, i))
    rc, out, dt = sh(['coqc', '-Q', COQ, 'ME', path], timeout=timeout)
    _cleanup([path])
    if rc != 0:
        return None, out
    parts = re.split(r'^\s*=\s', out, flags=re.M)[1:]
    res = []
    for p_ in parts:
        res.append(re.sub(r'\n\s*:\s[^\n]*(\n[^=\n][^\n]*)*$', '', p_.strip(), flags=re.S).strip())
    return res, out


def coq_nat_list(text):
    """'[78; 10]' / 'Differ [78; 10]' / 'Some [1; 2]' -> [78, 10] (all integers appearing in the text)."""
    return [int(x) for x in re.findall(r'-?\d+', text)]


def first_coq_error(log):
    m = re.search(r'File "([^"]+)", line (\d+), characters [\d-]+:\s*\n(Error:.*?)(?:\n\n|\nmake|\Z)', log, re.S)
    if m:
        return {'file': m.group(1), 'line': int(m.group(2)), 'error': m.group(3)[:1500]}
    return None


def theorem_at(vfile, line):
    """Name of the Theorem/Lemma/Definition enclosing a line of a .v file."""
    name = None
    try:
        for i, l in enumerate(open(vfile), 1):
            m = re.match(r'\s*(Theorem|Lemma|Corollary|Example|Fact|Definition|Fixpoint|Proposition)\s+(\w+)', l)
            if m:
                name = m.group(2)
            if i >= line:
                break
    except OSError:
        pass
    return name


STD_AXIOMS_REAL = (
    'ClassicalDedekindReals.sig_forall_dec', 'ClassicalDedekindReals.sig_not_dec',
    'FunctionalExtensionality.functional_extensionality_dep', 'Classical_Prop.classic')


def axiom_allowed(name):
    if name in STD_AXIOMS_REAL:
        return True
    # primitive machine numbers of the standard library, only through `interval`
    for pre in ('PrimInt63.', 'Uint63.', 'PrimFloat.', 'FloatAxioms.', 'FloatOps.', 'Sint63.'):
        if name.startswith(pre):
            return True
    return False


def property_theorems(prop):
    """Compile Properties/<prop>.v on its own and return
       (ok, [ {name, statement, assumptions:[...], closed:bool} ], log)."""
    src = os.path.join(COQ, 'Properties', prop + '.v')
    text = open(src).read()
    outdir = os.path.join(BUILD, 'props')
    os.makedirs(outdir, exist_ok=True)
    rc, out, dt = sh(['coqc', '-Q', COQ, 'ME', '-o', os.path.join(outdir, prop + '.vo'), src], timeout=900)
    names = re.findall(r'^Print Assumptions (\w+)\.', text, re.M)
    stm = {}
    for m in re.finditer(r'^(Theorem|Example)\s+(\w+)\s*:(.*?)\nProof\.', text, re.M | re.S):
        stm[m.group(2)] = ' '.join(m.group(3).split())
    thms = []
    if rc == 0:
        blocks = re.split(r'(?=^Closed under the global context|^Axioms:)', out, flags=re.M)
        blocks = [b for b in blocks if b.startswith('Closed under') or b.startswith('Axioms:')]
        for i, n in enumerate(names):
            b = blocks[i] if i < len(blocks) else ''
            closed = b.startswith('Closed under')
            axs = re.findall(r'^([A-Za-z_][\w.]*)\s*:', b, re.M) if b.startswith('Axioms:') else []
            axs = [a for a in axs if a != 'Axioms']
            thms.append({'name': n, 'statement': stm.get(n, ''), 'closed': closed, 'assumptions': axs})
        if len(blocks) != len(names):
            rc = 1
            out += '\n[driver] %d Print Assumptions commands but %d answers' % (len(names), len(blocks))
    declared = [m.group(2) for m in re.finditer(r'^(Theorem)\s+(\w+)', text, re.M)]
    missing = [d for d in declared if d not in names]
    if missing:
        rc = 1
        out += '\n[driver] theorems without Print Assumptions: %s' % missing
    return rc == 0, thms, out


# ----------------------------------------------------------------------------------------------
# fingerprints of the mirrored Python functions
# ----------------------------------------------------------------------------------------------

def _strip_doc(node):
    for n in ast.walk(node):
        if isinstance(n, (ast.FunctionDef, ast.ClassDef, ast.Module)):
            if n.body and isinstance(n.body[0], ast.Expr) and isinstance(getattr(n.body[0], 'value', None), ast.Constant) \
                    and isinstance(n.body[0].value.value, str):
                n.body = n.body[1:] or [ast.Pass()]
    return node


_ast_cache = {}


def module_ast(relpath):
    p = os.path.join(REPO, relpath)
    st = os.stat(p)
    key = (p, st.st_mtime_ns, st.st_size)
    if key not in _ast_cache:
        _ast_cache[key] = ast.parse(open(p).read())
    return _ast_cache[key]


def fingerprint(relpath, func):
    """Hash of the normalised AST of a top-level function or assignment (name) of a module."""
    try:
        tree = module_ast(relpath)
    except (OSError, SyntaxError) as e:
        return 'unreadable:%s' % type(e).__name__
    for node in tree.body:
        if isinstance(node, ast.FunctionDef) and node.name == func:
            import copy
            return hashlib.sha256(ast.dump(_strip_doc(copy.deepcopy(node))).encode()).hexdigest()[:16]
        if isinstance(node, ast.Assign) and any(isinstance(t, ast.Name) and t.id == func for t in node.targets):
            return hashlib.sha256(ast.dump(node).encode()).hexdigest()[:16]
    return 'missing'


def load_fingerprints():
    p = os.path.join(VERIF, 'fingerprints.json')
    if os.path.exists(p):
        return json.load(open(p))
    return {}


def changed_functions(funcs):
    """Subset of (relpath, func) whose fingerprint differs from the recorded one."""
    rec = load_fingerprints()
    ch = []
    for rp, fn in funcs:
        if rec.get('%s::%s' % (rp, fn)) != fingerprint(rp, fn):
            ch.append((rp, fn))
    return ch


# ----------------------------------------------------------------------------------------------
# correspondence units
# ----------------------------------------------------------------------------------------------

class Timeout(Exception):
    pass


class TooManyTimeouts(Exception):
    """The implementation stopped answering: the unit is aborted and reported as a correspondence that no longer checks."""


_timeouts = [0]
MAX_TIMEOUTS = 4


class deadline:
    """with deadline(seconds): ...   raises Timeout in the main thread when the block runs too long."""
    def __init__(self, seconds):
        self.seconds = max(1, int(seconds))

    def __enter__(self):
        self.old = signal.signal(signal.SIGALRM, _alarm)
        signal.alarm(self.seconds)
        return self

    def __exit__(self, *a):
        signal.alarm(0)
        signal.signal(signal.SIGALRM, self.old)
        return False


def _alarm(signum, frame):
    raise Timeout()


def call_impl(fn, *args, limit=10, **kw):
    """Run the implementation; return ('ok', value) or ('exc', class name)."""
    import warnings
    old = signal.signal(signal.SIGALRM, _alarm)
    prev = signal.alarm(limit)          # an enclosing guard_run alarm, if any, is re-armed in the finally clause
    t_in = time.time()
    try:
        with warnings.catch_warnings():
            warnings.simplefilter('ignore')
            return ('ok', fn(*args, **kw))
    except Timeout:
        _timeouts[0] += 1
        if _timeouts[0] > MAX_TIMEOUTS:
            raise TooManyTimeouts('%d calls of the implementation exceeded %d s (last: %s)' % (_timeouts[0], limit, getattr(fn, '__name__', fn)))
        return ('exc', 'Timeout')
    except RecursionError:
        return ('exc', 'RecursionError')
    except Exception as e:  # noqa
        return ('exc', type(e).__name__)
    finally:
        signal.alarm(0)
        signal.signal(signal.SIGALRM, old)
        if prev:
            signal.alarm(max(1, int(prev - (time.time() - t_in))))


def guard_run(unit, case, limit=90):
    """unit.run(case) under a wall-clock limit: a unit that calls the implementation without call_impl must not hang the check when
    a change makes the implementation loop forever. A timed-out case is recorded as the outcome ['exc', 'Timeout'] (a mismatch for
    the model, which never times out); more than MAX_TIMEOUTS of them abort the unit (TooManyTimeouts -> the unit is reported broken)."""
    old = signal.signal(signal.SIGALRM, _alarm)
    signal.alarm(limit)
    try:
        return unit.run(case)
    except Timeout:
        _timeouts[0] += 1
        if _timeouts[0] > MAX_TIMEOUTS:
            raise TooManyTimeouts('%d cases of unit %s exceeded %d s' % (_timeouts[0], unit.name, limit))
        return ['exc', 'Timeout']
    finally:
        signal.alarm(0)
        signal.signal(signal.SIGALRM, old)


class Unit:
    """One correspondence unit: model function(s) in Coq vs. implementation functions.

    Subclasses define:
      name            unit name
      requires        Coq modules to import (e.g. ['ME.Model.Matching'])
      mirrors         [(relpath, function)] Python functions the model mirrors (fingerprints)
      header          Coq text defining `check_case : <case type> -> bool`
      counts          {'quick': n, 'thorough': n}
      gen(rng, n)     -> list of cases (JSON-able python objects)
      run(case)       -> outcome (JSON-able), from the implementation
      emit(case, out) -> Coq term for one case
      nontrivial(case, out) -> bool
      exhaustive(tier)-> optional list of cases enumerated completely
      shrink(case)    -> iterable of smaller cases
    """
    name = None
    requires = []
    mirrors = []
    header = ''
    counts = {'quick': 300, 'thorough': 3000}
    shard = 400
    coq_timeout = 900

    def exhaustive(self, tier):
        return []

    def shrink(self, case):
        return []

    def nontrivial(self, case, out):
        return True

    def describe(self, case, out):
        return {'case': case, 'impl': out}


def _write_shard(unit, idx, pairs):
    path = os.path.join(CORR, '%s_%d_%03d.v' % (unit.name, os.getpid(), idx))
    if hasattr(unit, 'write_shard'):
        # proof-style units (e.g. numeric agreement shown by the `interval` tactic) write the whole file themselves;
        # their parse_output(text, n) -> (n_seen, bad_indices) reads what Coq printed
        with open(path, 'w') as f:
            f.write(unit.write_shard(pairs))
        return path
    with open(path, 'w') as f:
        f.write('From Coq Require Import List ZArith QArith String Bool Arith NArith.\n')
        f.write('From ME Require Import Model.Corr.\n')
        for r in unit.requires:
            f.write('From ME Require Import %s.\n' % r.replace('ME.', ''))
        f.write('Import ListNotations.\n')
        f.write(unit.header + '\n')
        f.write('Definition cases := [\n')
        f.write(';\n'.join(unit.emit(c, o) for c, o in pairs))
        f.write('\n].\n')
        f.write('Definition bad := bad_indices check_case cases.\n')
        f.write('Eval vm_compute in (List.length cases, bad).\n')
    return path


_RES = re.compile(r'=\s*\(\s*(\d+)(?:%nat)?\s*,\s*(\[[^\]]*\]|nil)\s*\)', re.S)


def _run_shards(unit, paths):
    """Compile shard files in parallel; returns list of (n, bad_indices) or error text per shard."""
    procs = []
    results = [None] * len(paths)
    pending = list(enumerate(paths))
    running = []
    t0 = time.time()
    while pending or running:
        while pending and len(running) < NCPU:
            i, p = pending.pop(0)
            pr = subprocess.Popen(['timeout', str(unit.coq_timeout), 'coqc', '-Q', COQ, 'ME', p],
                                  stdout=subprocess.PIPE, stderr=subprocess.STDOUT, text=True, cwd=CORR)
            running.append((i, p, pr))
        still = []
        for i, p, pr in running:
            if pr.poll() is None:
                still.append((i, p, pr))
                continue
            out = pr.stdout.read()
            if hasattr(unit, 'parse_output'):
                try:
                    results[i] = unit.parse_output(out, pr.returncode)
                except Exception as e:
                    results[i] = 'coqc output not understood (rc=%s, %s): %s' % (pr.returncode, e, out[-1500:])
                continue
            m = _RES.search(out)
            if pr.returncode == 0 and m:
                lst = m.group(2)
                bad = [] if lst == 'nil' else [int(x) for x in re.findall(r'\d+', lst)]
                results[i] = (int(m.group(1)), bad)
            else:
                results[i] = 'coqc failed (rc=%s): %s' % (pr.returncode, out[-1500:])
        running = still
        if running:
            time.sleep(0.05)
    return results


def _cleanup(paths):
    for p in paths:
        base = p[:-2]
        for ext in ('.v', '.vo', '.vok', '.vos', '.glob'):
            try:
                os.remove(base + ext)
            except OSError:
                pass
        try:
            os.remove(os.path.join(os.path.dirname(p), '.' + os.path.basename(base) + '.aux'))
        except OSError:
            pass


def evaluate_pairs(unit, pairs):
    """Compare (case, impl outcome) pairs inside Coq. Returns (bad pair indices, errors)."""
    if not pairs:
        return [], []
    shards = [pairs[i:i + unit.shard] for i in range(0, len(pairs), unit.shard)]
    paths = [_write_shard(unit, i, s) for i, s in enumerate(shards)]
    res = _run_shards(unit, paths)
    bad, errs = [], []
    for i, r in enumerate(res):
        if isinstance(r, str):
            errs.append(r)
        else:
            n, b = r
            if n != len(shards[i]):
                errs.append('shard %d: Coq saw %d cases, wrote %d' % (i, n, len(shards[i])))
            bad.extend(i * unit.shard + j for j in b)
    if not errs:
        _cleanup(paths)
    return bad, errs


def corpus_cases(unit):
    p = os.path.join(VERIF, 'corpus', unit.name + '.jsonl')
    if not os.path.exists(p):
        return []
    return [json.loads(l) for l in open(p) if l.strip()]


def _sweep_stale():
    now = time.time()
    for d in (CORR,):
        for fn in os.listdir(d):
            p = os.path.join(d, fn)
            try:
                if now - os.path.getmtime(p) > 1800:
                    os.remove(p)
            except OSError:
                pass


def run_unit(unit, tier, escalate=False):
    """Run one correspondence unit. Returns a report dict."""
    t0 = time.time()
    _sweep_stale()
    rng = random.Random('%s/%d' % (unit.name, seed()))
    n = unit.counts['thorough' if (tier == 'thorough' or escalate) else 'quick']
    cases = list(corpus_cases(unit))
    ncorpus = len(cases)
    ex = list(unit.exhaustive('thorough' if escalate else tier))
    cases += ex
    cases += list(unit.gen(rng, n))
    pairs = []
    for c in cases:
        pairs.append((c, guard_run(unit, c)))
    bad, errs = evaluate_pairs(unit, pairs)
    seen = set()
    nontriv = 0
    for c, o in pairs:
        k = json.dumps([c, o], sort_keys=True, default=str)
        if k in seen:
            continue
        seen.add(k)
        if unit.nontrivial(c, o):
            nontriv += 1
    rep = {
        'unit': unit.name, 'cases': len(pairs), 'corpus': ncorpus, 'exhaustive_part': len(ex),
        'distinct': len(seen), 'distinct_nontrivial': nontriv, 'escalated': bool(escalate),
        'mismatches': len(bad), 'errors': errs, 'wall_s': round(time.time() - t0, 2),
        'samples': [unit.describe(c, o) for c, o in pairs[ncorpus:ncorpus + 2]] + [unit.describe(*pairs[-1])] if pairs else [],
        'mirrors': ['%s::%s' % m for m in unit.mirrors],
    }
    if hasattr(unit, 'distribution'):
        rep['distribution'] = unit.distribution(pairs)
    rep['bad_cases'] = []
    if bad:
        # shrink the first few mismatches
        for bi in bad[:3]:
            c, o = pairs[bi]
            c, o = shrink_mismatch(unit, c, o)
            rep['bad_cases'].append({'case': c, 'impl': o})
    return rep


def shrink_mismatch(unit, case, out, rounds=6):
    for _ in range(rounds):
        cands = list(unit.shrink(case))[:200]
        if not cands:
            break
        pairs = [(c, guard_run(unit, c)) for c in cands]
        bad, errs = evaluate_pairs(unit, pairs)
        if errs or not bad:
            break
        case, out = pairs[bad[0]]
    return case, out


# ----------------------------------------------------------------------------------------------
# known findings, replay files, evidence
# ----------------------------------------------------------------------------------------------

def known_findings(prop=None):
    p = os.path.join(VERIF, 'known_findings.json')
    if not os.path.exists(p):
        return []
    items = json.load(open(p)).get('findings', [])
    return [f for f in items if prop is None or f.get('property') == prop]


_replay_n = [0]


def write_replay(prop, payload):
    _replay_n[0] += 1
    path = os.path.join(REPLAY, '%s_%d_%d.json' % (prop, os.getpid(), _replay_n[0]))
    payload = dict(payload)
    payload.setdefault('property', prop)
    payload.setdefault('seed', seed())
    with open(path, 'w') as f:
        json.dump(payload, f, indent=1, default=str)
    return path


def write_evidence(prop, tier, coverage, assumptions, wall, violations):
    ev = {
        'property_id': prop, 'tier': tier, 'seed': seed(), 'level': 'proof',
        'coverage': coverage, 'assumptions': assumptions, 'wall_s': round(wall, 2),
        'violations': violations,
    }
    tmp = os.path.join(EVID, prop + '.json.tmp%d' % os.getpid())
    with open(tmp, 'w') as f:
        json.dump(ev, f, indent=1, default=str)
    os.replace(tmp, os.path.join(EVID, prop + '.json'))
    return ev
