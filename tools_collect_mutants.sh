#!/bin/bash
# tools_collect_mutants.sh <Cxx> [suffix]: copy the mutants delivered under /tmp/wt_<Cxx>_work into /verif/seeded and drop the scratch worktree
id=$1; sfx=${2:-}
for d in /tmp/wt_${id}_work/mutant_*; do
  [ -d "$d" ] || continue
  k=$(basename $d | sed 's/mutant_//')
  mkdir -p /verif/seeded/$id-$sfx$k && cp $d/patch.diff $d/demo.py $d/meta.json /verif/seeded/$id-$sfx$k/ 2>/dev/null
done
git -C /repo worktree remove --force /tmp/wt_$id 2>/dev/null; rm -rf /tmp/wt_${id}_work; git -C /repo worktree prune
ls -d /verif/seeded/$id-* | tr '\n' ' '; echo
