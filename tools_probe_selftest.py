#!/usr/bin/env python3
"""Soundness self-test of harness/oracles/at_point.py on the UNCHANGED tree (/repo, or VERIF_REPO):

    tools_probe_selftest.py [--n N] [--jobs J] [--verbose] [unit ...]
    tools_probe_selftest.py --audit              classification (harness.oracles.all.KEYS) of every relation literal in harness/oracles/*.py
    tools_probe_selftest.py --sweeps [seed ...]  every sweep of harness.oracles.all.SWEEPS on this tree: classified findings must be known

For every adapted correspondence unit, probes the unit's exhaustive('quick') cases and N generated cases (unit.gen with a fixed
seed) and prints   unit  cases probed (and how many probes did real work, > 2 ms) / findings / known / NEW / dropped texts / crashes / slowest probe.
A NEW finding (one that harness.oracles.all.is_known does not list) on the unchanged tree is a false alarm of the probe (or an
unlisted defect): the exit status is 1 and the finding is printed.  `dropped` counts findings whose text did not classify to
the intended property (they are never returned); `crashes` are exceptions inside a probe family (also never returned)."""
import json
import os
import random
import sys
import time

here = os.path.dirname(os.path.abspath(__file__))
os.environ.setdefault('PYTHONHASHSEED', '0')
os.environ.setdefault('MIR_EVAL_VERIF', '1')
for k in ('OMP_NUM_THREADS', 'OPENBLAS_NUM_THREADS', 'MKL_NUM_THREADS'):
    os.environ.setdefault(k, '1')
sys.path.insert(0, here)
sys.path.insert(0, os.environ.get('VERIF_REPO', '/repo'))


def _one(args):
    uname, case = args
    import warnings
    warnings.simplefilter('ignore')
    from harness.oracles import at_point, all as ALL
    t = time.time()
    fs = at_point.probe(uname, case, None)
    dt = time.time() - t
    ctx = at_point.LAST
    known = [f for f in fs if ALL.is_known(f) is not None]
    new = [f for f in fs if ALL.is_known(f) is None]
    dropped = [d for d in (ctx.dropped if ctx else []) if d[0] != 'crash']
    crashes = [d for d in (ctx.dropped if ctx else []) if d[0] == 'crash']
    return uname, len(fs), len(known), new, dropped, crashes, dt, case


def _text_of(n):
    import ast
    if isinstance(n, ast.Constant) and isinstance(n.value, str):
        return n.value
    if isinstance(n, ast.BinOp) and isinstance(n.op, ast.Mod):
        return _text_of(n.left)
    if isinstance(n, ast.BinOp) and isinstance(n.op, ast.Add):
        a, b = _text_of(n.left), _text_of(n.right)
        return (a or '') + (b or '') if (a or b) else None
    if isinstance(n, ast.JoinedStr):
        return ''.join(v.value if isinstance(v, ast.Constant) else '{}' for v in n.values)
    if isinstance(n, ast.IfExp):
        return (_text_of(n.body) or '') + ' || ' + (_text_of(n.orelse) or '')
    return None


def audit():
    """every relation literal passed to finding(...) / ctx.add(pid, ...) / {'relation': ...} -> its classification"""
    import ast
    import glob
    from harness.oracles import all as ALL
    bad = 0
    for f in sorted(glob.glob(os.path.join(here, 'harness', 'oracles', '*.py'))) + sorted(glob.glob(os.path.join(here, 'props', '*.py'))):
        mod = os.path.basename(f)[:-3]
        for n in ast.walk(ast.parse(open(f).read())):
            rows = []
            if isinstance(n, ast.Call):
                fn = n.func
                name = fn.id if isinstance(fn, ast.Name) else (fn.attr if isinstance(fn, ast.Attribute) else None)
                if name == 'finding' and len(n.args) >= 2:
                    rows.append((_text_of(n.args[0]), _text_of(n.args[1]), None))
                elif name == 'add' and len(n.args) >= 3 and isinstance(fn, ast.Attribute) and isinstance(fn.value, ast.Name) and fn.value.id == 'ctx':
                    rows.append((_text_of(n.args[1]), _text_of(n.args[2]), _text_of(n.args[0])))
            elif isinstance(n, ast.Dict):
                d = {k.value: v for k, v in zip(n.keys, n.values) if isinstance(k, ast.Constant)}
                if 'relation' in d:
                    rows.append((_text_of(d['function']) if 'function' in d else None, _text_of(d['relation']), None))
            for fnm, t, want in rows:
                if t is None:
                    continue
                cl = sorted(ALL.classify({'relation': t, 'why': ''}))
                flag = ''
                if want is not None and cl != [want]:
                    flag = '   <-- at_point intends %s only' % want
                    bad += 1
                print('%-24s %4d %-30s %-12s %s%s' % (mod, n.lineno, (fnm or '?')[:30], ','.join(cl) or '-', t[:140], flag))
    print('at_point texts not classified to exactly their intended property: %d' % bad)
    return 1 if bad else 0


def sweeps(seeds):
    """run every sweep once per seed; a finding that classify() attributes to some property and is_known() does not list is NEW"""
    import warnings
    from harness.oracles import all as ALL
    warnings.simplefilter('ignore')
    new = 0
    for seed in seeds:
        for sw in ALL.SWEEPS:
            t = time.time()
            fs = sw(random.Random('sweeps/%s/%s' % (sw.__name__, seed)), 200)
            n_new = 0
            for f in fs:
                cl = sorted(ALL.classify(f))
                if (cl or str(f.get('function', '')).startswith('oracle:')) and ALL.is_known(f) is None:
                    n_new += 1
                    print('     NEW %s: %s | %s | %s | %s' % (cl, f.get('function'), f.get('relation'), json.dumps(f.get('observed'), default=str)[:160],
                                                              json.dumps(f.get('input'), default=str)[:300]))
            print('seed %-4s %-28s findings %3d  unclassified %3d  NEW %d  (%.0fs)' % (seed, sw.__name__, len(fs), sum(1 for f in fs if not ALL.classify(f)), n_new, time.time() - t))
            new += n_new
    print('TOTAL new (classified, non-known) sweep findings on this tree: %d' % new)
    return 1 if new else 0


def main():
    if sys.argv[1:2] == ['--audit']:
        return audit()
    if sys.argv[1:2] == ['--sweeps']:
        return sweeps(sys.argv[2:] or ['0', '1', '2'])
    import importlib
    from multiprocessing import Pool
    from harness.oracles import at_point, all as ALL
    args = sys.argv[1:]
    n, jobs, verbose = 2000, max(2, (os.cpu_count() or 4) - 2), False
    while args and args[0].startswith('--'):
        if args[0] == '--n':
            n = int(args[1]); args = args[2:]
        elif args[0] == '--jobs':
            jobs = int(args[1]); args = args[2:]
        elif args[0] == '--verbose':
            verbose = True; args = args[1:]
        else:
            raise SystemExit('unknown option %s' % args[0])
    units = args or sorted(at_point.UNITS)
    bad = 0
    print('repository: %s   generated cases per unit: %d' % (os.environ.get('VERIF_REPO', '/repo'), n))
    for uname in units:
        unit = importlib.import_module('harness.units.' + uname).UNIT
        rng = random.Random('probe-selftest/%s' % uname)
        cases = list(unit.exhaustive('quick') if hasattr(unit, 'exhaustive') else []) + list(unit.gen(rng, n))
        cases = json.loads(json.dumps(cases))          # exactly what the runner passes on (JSON round trip)
        t0 = time.time()
        with Pool(jobs) as pool:
            res = pool.map(_one, [(uname, c) for c in cases], chunksize=8)
        nf = sum(r[1] for r in res)
        nk = sum(r[2] for r in res)
        new = [(f, r[7]) for r in res for f in r[3]]
        dropped = sorted(set(str(d) for r in res for d in r[4]))
        crashes = [d for r in res for d in r[5]]
        slow = max([r[6] for r in res] + [0.0])
        probed = sum(1 for r in res if r[6] > 0.002)
        print('%-22s cases %5d (probes > 2 ms %5d)  findings %4d  known %4d  NEW %3d  dropped-texts %2d  crashes %3d  slowest %.2fs  wall %.0fs'
              % (uname, len(cases), probed, nf, nk, len(new), len(dropped), len(crashes), slow, time.time() - t0))
        for d in dropped[:10]:
            print('     dropped (text does not classify to the intended property only):', d[:300])
        for c in crashes[:3]:
            print('     crash:', str(c)[-400:].replace('\n', ' | '))
        seen = set()
        for f, case in new:
            key = (f['function'], f['relation'])
            if key in seen and not verbose:
                continue
            seen.add(key)
            print('     NEW: %s | %s | classified %s' % (f['function'], f['relation'], sorted(ALL.classify(f))))
            print('          input    %s' % json.dumps(f['input'], default=str)[:700])
            print('          observed %s   %s' % (json.dumps(f['observed'], default=str)[:300], f.get('why', '')[:200]))
            print('          unit case %s' % json.dumps(case, default=str)[:500])
        bad += len(new)
    print('TOTAL new (non-known) findings on this tree: %d' % bad)
    return 1 if bad else 0


if __name__ == '__main__':
    sys.exit(main())
