#!/usr/bin/env python3
"""Soundness self-test of harness/oracles/at_point.py on the UNCHANGED tree (/repo, or VERIF_REPO):

    tools_probe_selftest.py [--n N] [--jobs J] [--verbose] [unit ...]

For every adapted correspondence unit, probes the unit's exhaustive('quick') cases and N generated cases (unit.gen with a fixed
seed) and prints   unit  cases probed / findings / known / NEW / dropped texts / crashes / slowest probe.
A NEW finding (one that harness.oracles.all.is_known does not list) on the unchanged tree is a false alarm of the probe (or an
unlisted defect): the exit status is 1 and the finding is printed.  `dropped` counts findings whose text did not classify to
the intended property (they are never returned); `crashes` are exceptions inside a probe family (also never returned)."""
import json
import os
import random
import sys
import time

here = os.path.dirname(os.path.abspath(__file__))
os.environ.setdefault('PYTHONHASHSEED', '0')
os.environ.setdefault('MIR_EVAL_VERIF', '1')
for k in ('OMP_NUM_THREADS', 'OPENBLAS_NUM_THREADS', 'MKL_NUM_THREADS'):
    os.environ.setdefault(k, '1')
sys.path.insert(0, here)
sys.path.insert(0, os.environ.get('VERIF_REPO', '/repo'))


def _one(args):
    uname, case = args
    import warnings
    warnings.simplefilter('ignore')
    from harness.oracles import at_point, all as ALL
    t = time.time()
    fs = at_point.probe(uname, case, None)
    dt = time.time() - t
    ctx = at_point.LAST
    known = [f for f in fs if ALL.is_known(f) is not None]
    new = [f for f in fs if ALL.is_known(f) is None]
    dropped = [d for d in (ctx.dropped if ctx else []) if d[0] != 'crash']
    crashes = [d for d in (ctx.dropped if ctx else []) if d[0] == 'crash']
    return uname, len(fs), len(known), new, dropped, crashes, dt, case


def main():
    import importlib
    from multiprocessing import Pool
    from harness.oracles import at_point, all as ALL
    args = sys.argv[1:]
    n, jobs, verbose = 2000, max(2, (os.cpu_count() or 4) - 2), False
    while args and args[0].startswith('--'):
        if args[0] == '--n':
            n = int(args[1]); args = args[2:]
        elif args[0] == '--jobs':
            jobs = int(args[1]); args = args[2:]
        elif args[0] == '--verbose':
            verbose = True; args = args[1:]
        else:
            raise SystemExit('unknown option %s' % args[0])
    units = args or sorted(at_point.UNITS)
    bad = 0
    print('repository: %s   generated cases per unit: %d' % (os.environ.get('VERIF_REPO', '/repo'), n))
    for uname in units:
        unit = importlib.import_module('harness.units.' + uname).UNIT
        rng = random.Random('probe-selftest/%s' % uname)
        cases = list(unit.exhaustive('quick') if hasattr(unit, 'exhaustive') else []) + list(unit.gen(rng, n))
        cases = json.loads(json.dumps(cases))          # exactly what the runner passes on (JSON round trip)
        t0 = time.time()
        with Pool(jobs) as pool:
            res = pool.map(_one, [(uname, c) for c in cases], chunksize=8)
        nf = sum(r[1] for r in res)
        nk = sum(r[2] for r in res)
        new = [(f, r[7]) for r in res for f in r[3]]
        dropped = sorted(set(str(d) for r in res for d in r[4]))
        crashes = [d for r in res for d in r[5]]
        slow = max([r[6] for r in res] + [0.0])
        probed = sum(1 for r in res if r[6] > 0.002)
        print('%-22s cases %5d (non-trivially probed %5d)  findings %4d  known %4d  NEW %3d  dropped-texts %2d  crashes %3d  slowest %.2fs  wall %.0fs'
              % (uname, len(cases), probed, nf, nk, len(new), len(dropped), len(crashes), slow, time.time() - t0))
        for d in dropped[:10]:
            print('     dropped (text does not classify to the intended property only):', d[:300])
        for c in crashes[:3]:
            print('     crash:', str(c)[-400:].replace('\n', ' | '))
        seen = set()
        for f, case in new:
            key = (f['function'], f['relation'])
            if key in seen and not verbose:
                continue
            seen.add(key)
            print('     NEW: %s | %s | classified %s' % (f['function'], f['relation'], sorted(ALL.classify(f))))
            print('          input    %s' % json.dumps(f['input'], default=str)[:700])
            print('          observed %s   %s' % (json.dumps(f['observed'], default=str)[:300], f.get('why', '')[:200]))
            print('          unit case %s' % json.dumps(case, default=str)[:500])
        bad += len(new)
    print('TOTAL new (non-known) findings on this tree: %d' % bad)
    return 1 if bad else 0


if __name__ == '__main__':
    sys.exit(main())
