#!/usr/bin/env python3
"""Copy the verdicts of build/mutants/<id>.txt into seeded/<id>/result.txt; a verdict that differs from the recorded one moves the
old one to seeded/<id>/history.txt (so DESIGN.md can say 'missed at first, caught after strengthening')."""
import glob, json, os, re
HERE = os.path.dirname(os.path.abspath(__file__))
os.chdir(HERE)
for p in sorted(glob.glob('build/mutants/*.txt')):
    sid = os.path.basename(p)[:-4]
    d = 'seeded/%s/' % sid
    if not os.path.isdir(d):
        continue
    txt = open(p).read()
    lines = [re.sub(r'replay=\S*/build/replay/', 'replay=build/replay/', l) for l in txt.split('\n') if re.match(r'^(VIOLATION|OK|BROKEN|PATCH)', l)]
    if not lines:
        continue
    verdict = lines[0]
    rel = re.search(r'"relation": "([^"]+)"', txt)
    fn = re.search(r'"function": "([^"]+)"', txt)
    body = verdict + '\n'
    if verdict.startswith('VIOLATION') and 'no-failing-input-found' not in verdict and rel:
        body += 'failing input found for: %s :: %s\n' % (fn.group(1) if fn else '?', rel.group(1))
    if 'no-failing-input-found' in verdict:
        names = re.findall(r'"kind": "(\w[\w-]*)",\s*"name": "([^"]+)"', txt)
        if names:
            body += 'no longer checks: ' + ', '.join('%s %s' % kn for kn in names[:6]) + '\n'
    rp = d + 'result.txt'
    def kind(v):
        return 'missed' if v.startswith('OK') else ('caught-no-input' if 'no-failing-input-found' in v else ('caught' if v.startswith('VIOLATION') else v[:20]))
    if os.path.exists(rp):
        old = open(rp).read().split('\n')[0]
        if kind(old) != kind(verdict):
            with open(d + 'history.txt', 'a') as h:
                h.write(kind(old) + '\n')
    open(rp, 'w').write(body)
    print(sid, kind(verdict))
