#!/bin/bash
# Re-check the compiled property files (and everything they depend on) with Coq's independent checker and list the axioms.
#   tools_coqchk.sh            all 20 property files, in four groups (about 2-4 min and 1-4 GB each); output in build/logs/coqchk_*.txt
cd "$(dirname "$0")"
mkdir -p build/logs
for g in "C01 C02 C03 C04 C05" "C06 C07 C08 C09 C10 C11" "C12 C13 C14 C15" "C16 C17 C18 C19 C20"; do
  mods=""; for p in $g; do mods="$mods ME.Properties.$p"; done
  f=build/logs/coqchk_$(echo $g | tr ' ' '_').txt
  timeout 3600 coqchk -silent -o -Q coq ME $mods > $f 2>&1; echo "rc=$?" >> $f
  echo "== $g"; grep -A6 "Axioms" $f | grep -v "^$"; tail -1 $f
done
