"""The chord label parser / encoder of mir_eval/chord.py -> coq/Gen/ChordParseGen.v
(function bodies as programs of the Python-string sub-language of coq/Model/PyStr.v).

  pitch_class_to_semitone, scale_degree_to_semitone, scale_degree_to_bitmap, quality_to_bitmap,
  reduce_extended_quality, validate_chord_label, split, join, encode, encode_many, rotate_bitmap_to_root

This file maps syntax only (Python ast; mir_eval is never imported; anything outside the fragment raises
TranslationError). What an operator / method does on each type of value is defined by the evaluator of
Model/PyStr.v; Proofs/ChordParseTie.v proves every generated program equal to the hand-written model function
of Model/ChordParse.v for all inputs, with the callees instantiated by the model's functions.

Accepted fragment
  def          positional-or-keyword parameters, defaults = literal (None / bool / int / str) or a module constant
               of GLOBALS; no decorator, *args, **kwargs
  statements   x = e | x1, ..., xk = e | x op= e (op: + - * %) | x[i] = e | x1[i1], ..., xk[ik] = e | x.update(e) |
               <callee>(...) |
               if / elif / else | for <name or tuple of names> in e: (no else / break / continue) |
               return [e] | raise <Exception>(<message>[, <name>]) | assert e, <literal> | pass
               (no statement after a return / raise in the same block)
  expressions  parameters and locals, module constants of GLOBALS, None / bool / int / str literals, -<int literal>,
               tuples, lists, one comparison (== != < <= > >= in `not in` `is None` `is not None`), not / and / or,
               a if c else b, + - * %, e[i], [body for x in e] (one generator, no condition),
               e.startswith / count / strip / split / lower / join / get (positional arguments only),
               e.astype(np.int64), str() set() dict() enumerate() len() np.array() with positional arguments,
               np.zeros(<shape>, dtype=np.int64), np.asarray(e) np.nonzero(e) np.zeros_like(e) list(e) tuple(e) e.ndim,
               CHORD_RE.match(e) (kept as the opaque callee "CHORD_RE.match"),
               calls of the functions of FUNCS (opaque callees, arguments as written: positional and keyword).
What this file decides itself
  * which names are locals (Python's rule: assigned anywhere in the body) and which are module constants; that
    every module constant used is assigned exactly once at module level and is not written to anywhere in the
    module (no other store, no `global`, no mutating method on it), that every callee has exactly one top-level def
    and is not rebound, that `np` is numpy and the builtins used are not shadowed;
  * the aliasing side condition of in-place writes: x[i] = e and x.update(e) are accepted only if every binding of x
    creates a fresh object (a literal, a constructor, an arithmetic / comparison result, a str method result, a call
    of a callee all of whose returns are fresh) and x never flows into another name, a container, or a callee
    argument; for x op= e the result of the same analysis is passed to the evaluator as a flag (it is needed only
    if the value turns out to be mutable). Under that condition rebinding the local is an exact reading;
  * a for loop's iterable must not mention a name written in its body;
  * the message of a raise: %-formatting is emitted as an expression statement in front of the raise (it can raise
    itself); "...".format(...) is accepted only with plain `{}` fields, at least as many arguments, each a name or
    list(<module constant>.keys()), and is then dropped (total); names are evaluated (unbound locals raise).
"""
import ast
from .common import module, top_func, codes, TranslationError, HEADER

OUTPUTS = ['ChordParseGen.v']

FUNCS = ['pitch_class_to_semitone', 'scale_degree_to_semitone', 'scale_degree_to_bitmap', 'quality_to_bitmap',
         'reduce_extended_quality', 'validate_chord_label', 'split', 'join', 'encode', 'encode_many',
         'rotate_bitmap_to_root']
GLOBALS = ['BITMAP_LENGTH', 'NO_CHORD', 'X_CHORD', 'NO_CHORD_ENCODED', 'X_CHORD_ENCODED', 'PITCH_CLASSES', 'SCALE_DEGREES',
           'QUALITIES', 'EXTENDED_QUALITY_REDUX']
PRIMS = {'CHORD_RE.match': ['string']}            # opaque callees that are not functions of the module
BUILTINS = {'str': (1, 1), 'set': (0, 1), 'dict': (0, 0), 'enumerate': (1, 1), 'len': (1, 1), 'list': (1, 1), 'tuple': (1, 1)}    # name: (min, max) arguments
COPYING = {'str', 'set', 'dict', 'len', 'np.array', 'enumerate', 'np.zeros', 'np.nonzero', 'np.zeros_like', 'list', 'tuple'}
NP1 = {'np.array', 'np.asarray', 'np.nonzero', 'np.zeros_like'}          # NumPy functions taken with one positional argument      # results never alias their arguments' containers
METHODS = {'startswith': (1, 1), 'count': (1, 1), 'strip': (0, 1), 'split': (1, 1), 'lower': (0, 0), 'join': (1, 1),
           'get': (1, 2)}
STR_METHODS = {'startswith', 'count', 'strip', 'split', 'lower', 'join'}     # results are new / immutable objects
MUTATING = {'update', 'pop', 'popitem', 'clear', 'setdefault', 'append', 'extend', 'insert', 'remove', 'add', 'discard',
            'sort', 'reverse', 'fill', 'put', 'resize', 'itemset', 'difference_update', 'intersection_update',
            'symmetric_difference_update', '__setitem__', '__delitem__', '__iadd__', '__ior__'}
EXN = {'InvalidChordException': 'InvalidChord', 'ValueError': 'ValueError', 'TypeError': 'TypeError', 'KeyError': 'KeyError',
       'IndexError': 'IndexError', 'ZeroDivisionError': 'ZeroDivisionError'}
CMP = {ast.Eq: 'Eq', ast.NotEq: 'Ne', ast.Lt: 'Lt', ast.LtE: 'Le', ast.Gt: 'Gt', ast.GtE: 'Ge'}
BIN = {ast.Add: 'Add', ast.Sub: 'Sub', ast.Mult: 'Mul', ast.Mod: 'Mod'}
RESERVED = set(BUILTINS) | {'np', 're', 'CHORD_RE', 'True', 'False', 'None', 'super', 'Exception'} | set(EXN)
EXPECTED_EXC_INIT = ("def __init__(self, message='', chord_label=None):\n    self.message = message\n"
                     "    self.chord_label = chord_label\n    self.name = self.__class__.__name__\n"
                     "    super(InvalidChordException, self).__init__(message)")


def fail(msg, node=None):
    where = ''
    if node is not None:
        where = ' at line %s: %s' % (getattr(node, 'lineno', '?'), ast.unparse(node)[:160])
    raise TranslationError('chordparse: ' + msg + where)


def cstr(s):
    if not (isinstance(s, str) and s.isidentifier() and s.isascii() or s in PRIMS or s in NP1 or s == 'np.zeros_int64'):
        fail('unusual name %r' % (s,))
    return '"%s"' % s


def cz(n):
    if isinstance(n, bool) or not isinstance(n, int) or abs(n) >= 2 ** 62:
        fail('unsupported integer literal %r' % (n,))
    return '(%d)%%Z' % n


def clist(items):
    return '[' + '; '.join(items) + ']'


# ----------------------------------------------------------------------------- module-level checks
def check_module(tree):
    """Everything the reading of names relies on. Fail-closed."""
    tops = {}
    for n in tree.body:
        if isinstance(n, (ast.FunctionDef, ast.ClassDef, ast.AsyncFunctionDef)):
            tops.setdefault(n.name, []).append(n)
        elif isinstance(n, (ast.Import, ast.ImportFrom)):
            for a in n.names:
                tops.setdefault((a.asname or a.name).split('.')[0], []).append(n)
        elif isinstance(n, (ast.Assign, ast.AugAssign, ast.AnnAssign)):
            for t in (n.targets if isinstance(n, ast.Assign) else [n.target]):
                for m in ast.walk(t):
                    if isinstance(m, ast.Name):
                        tops.setdefault(m.id, []).append(n)
        elif isinstance(n, ast.Expr) and isinstance(n.value, ast.Constant):
            pass
        elif isinstance(n, (ast.If, ast.For, ast.While, ast.Try, ast.With, ast.Delete)):
            fail('module-level control flow (names may be rebound conditionally)', n)
    np_ok = [n for n in tops.get('np', []) if isinstance(n, ast.Import) and len(n.names) == 1
             and n.names[0].name == 'numpy' and n.names[0].asname == 'np']
    if len(tops.get('np', [])) != 1 or len(np_ok) != 1:
        fail('`np` is not bound exactly once by `import numpy as np`')
    for b in list(BUILTINS) + ['super', 'Exception']:
        if b in tops:
            fail('builtin %r is rebound at module level' % b)
    for f in FUNCS:
        if len(tops.get(f, [])) != 1 or not isinstance(tops[f][0], ast.FunctionDef):
            fail('%s is not bound exactly once, by a top-level def' % f)
    for g in GLOBALS + ['CHORD_RE']:
        if len(tops.get(g, [])) != 1 or not isinstance(tops[g][0], ast.Assign) or len(tops[g][0].targets) != 1 \
                or not isinstance(tops[g][0].targets[0], ast.Name):
            fail('module constant %s is not bound exactly once by a plain top-level assignment' % g)
    cre = tops['CHORD_RE'][0].value
    if not (isinstance(cre, ast.Call) and ast.unparse(cre.func) == 're.compile' and len(cre.args) == 1 and not cre.keywords
            and isinstance(cre.args[0], ast.Constant) and isinstance(cre.args[0].value, str)):
        fail('CHORD_RE is not re.compile(<literal>)', cre)
    if len(tops.get('re', [])) != 1 or not (isinstance(tops['re'][0], ast.Import) and tops['re'][0].names[0].name == 're'
                                             and tops['re'][0].names[0].asname is None):
        fail('`re` is not bound exactly once by `import re`')
    # no write to a module constant anywhere (other than its one binding)
    watched = set(GLOBALS) | {'CHORD_RE'} | set(FUNCS)
    for n in ast.walk(tree):
        if isinstance(n, (ast.Global, ast.Nonlocal)) and watched & set(n.names):
            fail('global / nonlocal declaration of a module constant', n)
        if isinstance(n, ast.Name) and n.id in watched and isinstance(n.ctx, (ast.Store, ast.Del)):
            if not any(n is t for b in tops[n.id] if isinstance(b, ast.Assign) for t in b.targets):
                # a local of the same name inside a function is a different variable, but then the function cannot
                # also read the module constant; be strict
                fail('second binding of the name %s' % n.id, n)
        if isinstance(n, (ast.Subscript, ast.Attribute)) and isinstance(n.ctx, (ast.Store, ast.Del)):
            base = n.value
            while isinstance(base, (ast.Subscript, ast.Attribute)):
                base = base.value
            if isinstance(base, ast.Name) and base.id in watched:
                fail('write into the module constant %s' % base.id, n)
        if isinstance(n, ast.Call) and isinstance(n.func, ast.Attribute) and n.func.attr in MUTATING:
            base = n.func.value
            while isinstance(base, (ast.Subscript, ast.Attribute)):
                base = base.value
            if isinstance(base, ast.Name) and base.id in watched:
                fail('mutating method on the module constant %s' % base.id, n)
        if isinstance(n, ast.AugAssign):
            base = n.target
            while isinstance(base, (ast.Subscript, ast.Attribute)):
                base = base.value
            if isinstance(base, ast.Name) and base.id in watched:
                fail('augmented assignment to the module constant %s' % base.id, n)
    # the exception class: its constructor must do nothing but store its arguments
    exc = tops.get('InvalidChordException', [])
    if len(exc) != 1 or not isinstance(exc[0], ast.ClassDef) or [ast.unparse(b) for b in exc[0].bases] != ['Exception'] \
            or exc[0].keywords or exc[0].decorator_list:
        fail('InvalidChordException is not a plain subclass of Exception defined once')
    inits = [b for b in exc[0].body if isinstance(b, ast.FunctionDef)]
    other = [b for b in exc[0].body if not isinstance(b, ast.FunctionDef)
             and not (isinstance(b, ast.Expr) and isinstance(b.value, ast.Constant))]
    if other or len(inits) != 1 or ast.unparse(inits[0]) != EXPECTED_EXC_INIT:
        fail('InvalidChordException.__init__ is not the expected argument-storing constructor')


# ----------------------------------------------------------------------------- one function
class Fn:
    def __init__(self, node, fresh_callees):
        self.node = node
        self.name = node.name
        self.fresh_callees = fresh_callees
        a = node.args
        if node.decorator_list or a.posonlyargs or a.kwonlyargs or a.vararg or a.kwarg or node.returns is not None:
            fail('%s: unexpected signature or decorator' % self.name, node)
        self.params = [x.arg for x in a.args]
        if any(x.annotation is not None for x in a.args):
            fail('%s: annotated parameter' % self.name, node)
        nd = len(a.defaults)
        self.defaults = [None] * (len(self.params) - nd) + list(a.defaults)
        for sub in ast.walk(node):
            if sub is not node and isinstance(sub, (ast.Lambda, ast.FunctionDef, ast.AsyncFunctionDef, ast.ClassDef, ast.Global,
                                                    ast.Nonlocal, ast.NamedExpr, ast.Await, ast.Yield, ast.YieldFrom, ast.While,
                                                    ast.Try, ast.With, ast.Break, ast.Continue, ast.Delete,
                                                    ast.Import, ast.ImportFrom, ast.Starred, ast.SetComp, ast.DictComp,
                                                    ast.GeneratorExp, ast.AnnAssign, ast.JoinedStr, ast.Slice, ast.Set,
                                                    ast.Dict)):
                fail('%s: unsupported construct %s' % (self.name, type(sub).__name__), sub)
        # locals: every name stored outside comprehensions (comprehension targets live in their own scope)
        comp_targets = set()
        for sub in ast.walk(node):
            if isinstance(sub, ast.ListComp):
                for g in sub.generators:
                    for m in ast.walk(g.target):
                        comp_targets.add(id(m))
        self.locals = []
        for sub in ast.walk(node):
            if isinstance(sub, ast.Name) and isinstance(sub.ctx, ast.Store) and id(sub) not in comp_targets:
                if sub.id not in self.params and sub.id not in self.locals:
                    self.locals.append(sub.id)
        for x in self.params + self.locals:
            if not (x.isidentifier() and x.isascii()) or x in RESERVED or x in FUNCS or x in GLOBALS:
                fail('%s: the local name %r shadows a name this translator gives a fixed meaning' % (self.name, x), node)
        if len(set(self.params)) != len(self.params):
            fail('%s: duplicate parameter' % self.name, node)
        self.body = list(node.body)
        if self.body and isinstance(self.body[0], ast.Expr) and isinstance(self.body[0].value, ast.Constant) \
                and isinstance(self.body[0].value.value, str):
            self.body = self.body[1:]
        self.analyse()

    # ---- aliasing analysis (flow-insensitive) ----
    def expr_fresh(self, e):
        """e evaluates to an object no other reference can reach (or to an immutable value)."""
        if isinstance(e, ast.Constant):
            return True
        if isinstance(e, (ast.BinOp, ast.Compare)):
            return True
        if isinstance(e, ast.UnaryOp):
            return True
        if isinstance(e, (ast.List, ast.Tuple, ast.ListComp)):
            return True                      # a new container (its elements may be shared; nested writes are not accepted)
        if isinstance(e, ast.IfExp):
            return self.expr_fresh(e.body) and self.expr_fresh(e.orelse)
        if isinstance(e, ast.BoolOp):
            return all(self.expr_fresh(v) for v in e.values)
        if isinstance(e, ast.Name):
            return e.id in self.fresh_names
        if isinstance(e, ast.Call):
            f = e.func
            if isinstance(f, ast.Name):
                if f.id in BUILTINS:
                    return True
                if f.id in FUNCS:
                    return f.id in self.fresh_callees
                return False
            if isinstance(f, ast.Attribute):
                if ast.unparse(f) in ('np.array', 'np.zeros', 'np.nonzero', 'np.zeros_like'):
                    return True
                if f.attr in STR_METHODS or f.attr == 'astype':
                    return True
                return False
        return False

    def escaping(self, e):
        """names whose object may be reachable from the value of e or be retained by what e calls."""
        if isinstance(e, ast.Name):
            return {e.id}
        if isinstance(e, (ast.Tuple, ast.List)):
            return set().union(*[self.escaping(x) for x in e.elts]) if e.elts else set()
        if isinstance(e, ast.IfExp):
            return self.escaping(e.body) | self.escaping(e.orelse)
        if isinstance(e, ast.BoolOp):
            return set().union(*[self.escaping(x) for x in e.values])
        if isinstance(e, ast.Subscript):
            return self.escaping(e.value)
        if isinstance(e, ast.ListComp):
            return self.escaping(e.elt) | set().union(*[self.escaping(g.iter) for g in e.generators])
        if isinstance(e, ast.Call):
            f = e.func
            fname = ast.unparse(f)
            if fname in COPYING:
                return set()
            args = list(e.args) + [k.value for k in e.keywords]
            out = set().union(*[self.escaping(x) for x in args]) if args else set()
            if isinstance(f, ast.Attribute) and fname not in PRIMS:
                if f.attr in STR_METHODS or f.attr == 'astype':
                    return set()
                if f.attr == 'get':
                    return out            # an element (or the default), never the container itself
                out |= self.escaping(f.value)
            return out
        return set()           # constants, arithmetic, comparisons, not: new or immutable objects

    def analyse(self):
        bindings = {x: [] for x in self.locals}
        for x in self.params:
            bindings[x] = [None]          # the caller's object
        self.written = set()          # names that are the target of an in-place write
        alias_sites = []              # expressions whose value is stored / passed on
        for sub in ast.walk(self.node):
            if isinstance(sub, ast.Assign):
                t = sub.targets[0] if len(sub.targets) == 1 else None
                if isinstance(t, ast.Name):
                    bindings[t.id].append(sub.value)
                    alias_sites.append((sub.value, t.id))
                elif isinstance(t, ast.Tuple):
                    # the pieces of s.split(...) are new strings; the rows of a new np.zeros array are views of a base
                    # that nothing else can reach
                    ok = isinstance(sub.value, ast.Call) and isinstance(sub.value.func, ast.Attribute) \
                        and (sub.value.func.attr == 'split' or ast.unparse(sub.value.func) == 'np.zeros')
                    for m in t.elts:
                        if isinstance(m, ast.Name):
                            bindings[m.id].append(ast.Constant(value='') if ok else None)
                        elif isinstance(m, ast.Subscript) and isinstance(m.value, ast.Name):
                            self.written.add(m.value.id)
                    alias_sites.append((sub.value, None))
                elif isinstance(t, ast.Subscript) and isinstance(t.value, ast.Name):
                    self.written.add(t.value.id)
                    alias_sites.append((sub.value, None))
            elif isinstance(sub, ast.AugAssign) and isinstance(sub.target, ast.Name):
                pass                  # keeps the object (mutable) or rebinds to a new immutable value
            elif isinstance(sub, ast.For):
                for m in ast.walk(sub.target):
                    if isinstance(m, ast.Name):
                        bindings[m.id].append(None)
            elif isinstance(sub, ast.Call):
                f = sub.func
                if isinstance(f, ast.Attribute) and f.attr == 'update' and isinstance(f.value, ast.Name):
                    self.written.add(f.value.id)
                if isinstance(f, ast.Name) and f.id in FUNCS or ast.unparse(f) in PRIMS:
                    for x in list(sub.args) + [k.value for k in sub.keywords]:
                        alias_sites.append((x, None))
        # fresh names: least fixed point is not what we want (x = y; y = x); iterate downwards from "all locals with bindings"
        self.fresh_names = {x for x in self.locals if bindings[x]}
        changed = True
        while changed:
            changed = False
            for x in sorted(self.fresh_names):
                if not all(b is not None and self.expr_fresh(b) for b in bindings[x]):
                    self.fresh_names.discard(x)
                    changed = True
        # a written (or += on possibly mutable) name must not leak
        self.leaked = set()
        for e, target in alias_sites:
            for x in self.escaping(e):
                if x != target or not self.expr_fresh(e) or isinstance(e, ast.Name):
                    self.leaked.add(x)
        # returns: x may be returned (the frame dies) - not an alias site
        self.returns_fresh = True
        for sub in ast.walk(self.node):
            if isinstance(sub, ast.Return) and sub.value is not None:
                v = sub.value
                ok = self.expr_fresh(v) and not (isinstance(v, ast.Name) and v.id in self.leaked)
                if not ok:
                    self.returns_fresh = False

    def unshared(self, x):
        return x in self.fresh_names and x not in self.leaked

    # ---- expressions ----
    def ex(self, n, comp=()):
        if isinstance(n, ast.Constant):
            c = n.value
            if c is None:
                return 'ENone'
            if isinstance(c, bool):
                return '(EBool %s)' % ('true' if c else 'false')
            if isinstance(c, int):
                return '(EInt %s)' % cz(c)
            if isinstance(c, str):
                return '(EStr %s%%nat)' % codes(c)
            fail('unsupported literal', n)
        if isinstance(n, ast.Name):
            if not isinstance(n.ctx, ast.Load):
                fail('unexpected store', n)
            if n.id in comp or n.id in self.params or n.id in self.locals:
                return '(ELoc %s)' % cstr(n.id)
            if n.id in GLOBALS:
                return '(EGlob %s)' % cstr(n.id)
            fail('name %r is not a parameter, a local or a known module constant' % n.id, n)
        if isinstance(n, ast.Tuple):
            return '(ETuple %s)' % clist([self.ex(x, comp) for x in n.elts])
        if isinstance(n, ast.List):
            return '(EList %s)' % clist([self.ex(x, comp) for x in n.elts])
        if isinstance(n, ast.UnaryOp):
            if isinstance(n.op, ast.Not):
                return '(ENot %s)' % self.ex(n.operand, comp)
            if isinstance(n.op, ast.USub) and isinstance(n.operand, ast.Constant) and isinstance(n.operand.value, int) \
                    and not isinstance(n.operand.value, bool):
                return '(EInt %s)' % cz(-n.operand.value)
            fail('unsupported unary operator', n)
        if isinstance(n, ast.BoolOp):
            comb = 'EAnd' if isinstance(n.op, ast.And) else 'EOr'
            parts = [self.ex(x, comp) for x in n.values]
            out = parts[-1]
            for p in reversed(parts[:-1]):
                out = '(%s %s %s)' % (comb, p, out)
            return out
        if isinstance(n, ast.Compare):
            if len(n.ops) != 1:
                fail('chained comparison', n)
            op, a, b = n.ops[0], n.left, n.comparators[0]
            if isinstance(op, (ast.Is, ast.IsNot)):
                if not (isinstance(b, ast.Constant) and b.value is None):
                    fail('`is` is accepted against None only', n)
                return '(%s %s)' % ('EIsNone' if isinstance(op, ast.Is) else 'EIsNotNone', self.ex(a, comp))
            if isinstance(op, ast.In):
                return '(EIn %s %s)' % (self.ex(a, comp), self.ex(b, comp))
            if isinstance(op, ast.NotIn):
                return '(ENotIn %s %s)' % (self.ex(a, comp), self.ex(b, comp))
            if type(op) in CMP:
                return '(ECmp %s %s %s)' % (CMP[type(op)], self.ex(a, comp), self.ex(b, comp))
            fail('unsupported comparison', n)
        if isinstance(n, ast.IfExp):
            return '(EIfExp %s %s %s)' % (self.ex(n.test, comp), self.ex(n.body, comp), self.ex(n.orelse, comp))
        if isinstance(n, ast.BinOp):
            if type(n.op) not in BIN:
                fail('unsupported binary operator', n)
            return '(EBin %s %s %s)' % (BIN[type(n.op)], self.ex(n.left, comp), self.ex(n.right, comp))
        if isinstance(n, ast.Subscript):
            if not isinstance(n.ctx, ast.Load):
                fail('unexpected store', n)
            return '(EIndex %s %s)' % (self.ex(n.value, comp), self.ex(n.slice, comp))
        if isinstance(n, ast.ListComp):
            if len(n.generators) != 1:
                fail('comprehension with several generators', n)
            g = n.generators[0]
            if g.ifs or g.is_async or not isinstance(g.target, ast.Name):
                fail('comprehension with a condition or a tuple target', n)
            x = g.target.id
            if not (x.isidentifier() and x.isascii()) or x in RESERVED or x in FUNCS or x in GLOBALS:
                fail('unusual comprehension variable', n)
            return '(EComp %s %s %s)' % (cstr(x), self.ex(n.elt, comp + (x,)), self.ex(g.iter, comp))
        if isinstance(n, ast.Call):
            return self.call(n, comp)
        if isinstance(n, ast.Attribute) and n.attr == 'ndim' and isinstance(n.ctx, ast.Load):
            return '(EBuiltin "ndim" [%s])' % self.ex(n.value, comp)
        fail('expression outside the accepted fragment', n)

    def call(self, n, comp):
        f = n.func
        if isinstance(f, ast.Attribute) and f.attr == 'astype':
            if n.keywords or len(n.args) != 1 or ast.unparse(n.args[0]) != 'np.int64':
                fail('astype is accepted with np.int64 only', n)
            return '(EMeth %s "astype_int64" [])' % self.ex(f.value, comp)
        pos = [self.ex(x, comp) for x in n.args]
        if isinstance(f, ast.Name):
            if f.id in comp or f.id in self.params or f.id in self.locals:
                fail('call of a local', n)
            if f.id in BUILTINS:
                lo, hi = BUILTINS[f.id]
                if n.keywords or not lo <= len(pos) <= hi:
                    fail('builtin %s with unexpected arguments' % f.id, n)
                return '(EBuiltin %s %s)' % (cstr(f.id), clist(pos))
            if f.id in FUNCS:
                kws = []
                for k in n.keywords:
                    if k.arg is None:
                        fail('**kwargs in a call', n)
                    kws.append('(%s, %s)' % (cstr(k.arg), self.ex(k.value, comp)))
                return '(ECall %s %s %s)' % (cstr(f.id), clist(pos), clist(kws))
            fail('call of an unknown function %r' % f.id, n)
        if isinstance(f, ast.Attribute):
            full = ast.unparse(f)
            if full in NP1:
                if n.keywords or len(pos) != 1:
                    fail('%s with unexpected arguments' % full, n)
                return '(EBuiltin %s %s)' % (cstr(full), clist(pos))
            if full == 'np.zeros':
                if len(pos) != 1 or len(n.keywords) != 1 or n.keywords[0].arg != 'dtype' \
                        or ast.unparse(n.keywords[0].value) != 'np.int64':
                    fail('np.zeros is accepted as np.zeros(<shape>, dtype=np.int64) only', n)
                return '(EBuiltin "np.zeros_int64" %s)' % clist(pos)
            if full in PRIMS:
                if n.keywords or len(pos) != len(PRIMS[full]):
                    fail('%s with unexpected arguments' % full, n)
                return '(ECall %s %s [])' % (cstr(full), clist(pos))
            if isinstance(f.value, ast.Name) and f.value.id in ('np', 're', 'CHORD_RE'):
                fail('unsupported library call %s' % full, n)
            if f.attr in METHODS:
                lo, hi = METHODS[f.attr]
                if n.keywords or not lo <= len(pos) <= hi:
                    fail('method %s with unexpected arguments' % f.attr, n)
                return '(EMeth %s %s %s)' % (self.ex(f.value, comp), cstr(f.attr), clist(pos))
            fail('unsupported method %s' % f.attr, n)
        fail('unsupported call', n)

    # ---- statements ----
    def written_in(self, stmts):
        out = set()
        for s in stmts:
            for sub in ast.walk(s):
                if isinstance(sub, ast.Name) and isinstance(sub.ctx, ast.Store):
                    out.add(sub.id)
                if isinstance(sub, ast.Subscript) and isinstance(sub.ctx, ast.Store) and isinstance(sub.value, ast.Name):
                    out.add(sub.value.id)
                if isinstance(sub, ast.Call) and isinstance(sub.func, ast.Attribute) and sub.func.attr in MUTATING \
                        and isinstance(sub.func.value, ast.Name):
                    out.add(sub.func.value.id)
        return out

    def message(self, args, node):
        """statements that evaluate what the construction of the exception evaluates and that can fail."""
        pre = []
        if len(args) > 2:
            fail('exception with more than two arguments', node)
        for a in args:
            if isinstance(a, ast.Constant):
                continue
            if isinstance(a, ast.Name):
                pre.append('SExpr %s' % self.ex(a))
                continue
            if isinstance(a, ast.BinOp) and isinstance(a.op, ast.Mod) and isinstance(a.left, ast.Constant) \
                    and isinstance(a.left.value, str):
                pre.append('SExpr %s' % self.ex(a))
                continue
            if isinstance(a, ast.Call) and isinstance(a.func, ast.Attribute) and a.func.attr == 'format' \
                    and isinstance(a.func.value, ast.Constant) and isinstance(a.func.value.value, str) and not a.keywords:
                fmt = a.func.value.value
                rest = fmt.replace('{}', '')
                if '{' in rest or '}' in rest or fmt.count('{}') > len(a.args):
                    fail('format string with fields other than {} or too few arguments', a)
                for x in a.args:
                    if isinstance(x, ast.Name):
                        pre.append('SExpr %s' % self.ex(x))
                    elif isinstance(x, ast.Call) and ast.unparse(x.func) == 'list' and len(x.args) == 1 and not x.keywords \
                            and isinstance(x.args[0], ast.Call) and isinstance(x.args[0].func, ast.Attribute) \
                            and x.args[0].func.attr == 'keys' and not x.args[0].args and not x.args[0].keywords \
                            and isinstance(x.args[0].func.value, ast.Name) and x.args[0].func.value.id in GLOBALS \
                            and x.args[0].func.value.id not in self.params + self.locals:
                        pass
                    else:
                        fail('unsupported argument of format in an exception message', x)
                continue
            fail('unsupported exception message', a)
        return pre

    def block(self, stmts, ind):
        out = []
        for i, s in enumerate(stmts):
            out.extend(self.stmt(s, ind))
            if isinstance(s, (ast.Return, ast.Raise)) and i + 1 < len(stmts):
                fail('statement after return / raise', stmts[i + 1])
        return out

    def fmt_block(self, items, ind):
        pad = '\n' + '  ' * (ind + 1)
        if not items:
            return '[]'
        return '[' + pad + (';' + pad).join(items) + ']'

    def stmt(self, s, ind):
        if isinstance(s, ast.Pass):
            return ['SPass']
        if isinstance(s, ast.Assert):
            if s.msg is not None and not (isinstance(s.msg, ast.Constant) and isinstance(s.msg.value, str)):
                fail('assert with a computed message', s)
            return ['SAssert %s' % self.ex(s.test)]
        if isinstance(s, ast.Expr):
            v = s.value
            if isinstance(v, ast.Call) and isinstance(v.func, ast.Attribute) and v.func.attr == 'update':
                x = v.func.value
                if not isinstance(x, ast.Name) or x.id not in self.locals or v.keywords or len(v.args) != 1:
                    fail('x.update(e) is accepted on a local only, with one argument', s)
                if not self.unshared(x.id):
                    fail('in-place update of %r, which may be shared (a binding that is not a fresh object, or the '
                         'name flows elsewhere)' % x.id, s)
                return ['SUpdate %s %s' % (cstr(x.id), self.ex(v.args[0]))]
            if isinstance(v, ast.Call) and (isinstance(v.func, ast.Name) and v.func.id in FUNCS or ast.unparse(v.func) in PRIMS):
                return ['SExpr %s' % self.ex(v)]
            fail('expression statement that is not a call of a known function', s)
        if isinstance(s, ast.Assign):
            if len(s.targets) != 1:
                fail('chained assignment', s)
            t = s.targets[0]
            if isinstance(t, ast.Name):
                return ['SAssign %s %s' % (cstr(t.id), self.ex(s.value))]
            if isinstance(t, ast.Tuple) and len(t.elts) >= 2 and all(
                    isinstance(m, ast.Subscript) and isinstance(m.value, ast.Name) for m in t.elts):
                items = []
                for m in t.elts:
                    x = m.value.id
                    if x not in self.locals:
                        fail('item assignment into something that is not a local', s)
                    if not self.unshared(x):
                        fail('in-place write into %r, which may be shared (a binding that is not a fresh object, or the '
                             'name flows elsewhere)' % x, s)
                    items.append('(%s, %s)' % (cstr(x), self.ex(m.slice)))
                if len({m.value.id for m in t.elts}) != len(t.elts):
                    fail('the same array twice in one unpacking target', s)
                return ['SUnpackItems %s %s' % (clist(items), self.ex(s.value))]
            if isinstance(t, ast.Tuple):
                if len(t.elts) < 2 or not all(isinstance(m, ast.Name) for m in t.elts) \
                        or len({m.id for m in t.elts}) != len(t.elts):
                    fail('unpacking target must be two or more distinct names', s)
                return ['SUnpack %s %s' % (clist([cstr(m.id) for m in t.elts]), self.ex(s.value))]
            if isinstance(t, ast.Subscript) and isinstance(t.value, ast.Name):
                x = t.value.id
                if x not in self.locals:
                    fail('item assignment into something that is not a local', s)
                if not self.unshared(x):
                    fail('in-place write into %r, which may be shared (a binding that is not a fresh object, or the '
                         'name flows elsewhere)' % x, s)
                return ['SSetItem %s %s %s' % (cstr(x), self.ex(t.slice), self.ex(s.value))]
            fail('unsupported assignment target', s)
        if isinstance(s, ast.AugAssign):
            if not isinstance(s.target, ast.Name) or type(s.op) not in BIN:
                fail('unsupported augmented assignment', s)
            x = s.target.id
            return ['SAug %s %s %s %s' % ('true' if self.unshared(x) else 'false', cstr(x), BIN[type(s.op)], self.ex(s.value))]
        if isinstance(s, ast.If):
            a = self.block(s.body, ind + 1)
            b = self.block(s.orelse, ind + 1)
            return ['SIf %s %s %s' % (self.ex(s.test), self.fmt_block(a, ind + 1), self.fmt_block(b, ind + 1))]
        if isinstance(s, ast.For):
            if s.orelse:
                fail('for ... else', s)
            if isinstance(s.target, ast.Name):
                xs = [s.target.id]
            elif isinstance(s.target, ast.Tuple) and len(s.target.elts) >= 2 and all(isinstance(m, ast.Name) for m in s.target.elts) \
                    and len({m.id for m in s.target.elts}) == len(s.target.elts):
                xs = [m.id for m in s.target.elts]
            else:
                fail('unsupported loop target', s)
            used = {m.id for m in ast.walk(s.iter) if isinstance(m, ast.Name)}
            clash = used & (self.written_in(s.body) | set(xs))
            if clash:
                fail('the iterable of a loop mentions %s, which the loop writes' % sorted(clash), s)
            body = self.block(s.body, ind + 1)
            return ['SFor %s %s %s' % (clist([cstr(x) for x in xs]), self.ex(s.iter), self.fmt_block(body, ind + 1))]
        if isinstance(s, ast.Return):
            return ['SReturn %s' % ('ENone' if s.value is None else self.ex(s.value))]
        if isinstance(s, ast.Raise):
            e = s.exc
            if s.cause is not None or e is None:
                fail('unsupported raise', s)
            if isinstance(e, ast.Name):
                name, args, kws = e.id, [], []
            elif isinstance(e, ast.Call) and isinstance(e.func, ast.Name):
                name, args, kws = e.func.id, e.args, e.keywords
            else:
                fail('unsupported raise', s)
            if name not in EXN or kws or name in self.params + self.locals:
                fail('unsupported exception', s)
            return self.message(args, s) + ['SRaise %s' % EXN[name]]
        fail('statement outside the accepted fragment', s)

    def coq(self):
        ps = []
        for p, d in zip(self.params, self.defaults):
            if d is None:
                ps.append('(%s, None)' % cstr(p))
            else:
                if isinstance(d, ast.Name) and d.id in GLOBALS:
                    de = '(EGlob %s)' % cstr(d.id)
                elif isinstance(d, ast.Constant) and (d.value is None or isinstance(d.value, (bool, int, str))):
                    de = Fn.ex(self, d)
                else:
                    fail('%s: default of %s is neither a literal nor a known module constant' % (self.name, p), d)
                ps.append('(%s, Some %s)' % (cstr(p), de))
        body = self.block(self.body, 1)
        return ('{| f_params := %s;\n     f_locals := %s;\n     f_body := %s |}'
                % (clist(ps), clist([cstr(x) for x in self.locals]), self.fmt_block(body, 2)))


def generate():
    tree = module('chord')
    check_module(tree)
    # which callees return a fresh object on every path: iterate (the call graph of FUNCS is acyclic; checked below)
    nodes = {f: top_func(tree, f) for f in FUNCS}
    order = {f: i for i, f in enumerate(FUNCS)}
    for f in FUNCS:
        for sub in ast.walk(nodes[f]):
            if isinstance(sub, ast.Call) and isinstance(sub.func, ast.Name) and sub.func.id in FUNCS \
                    and order[sub.func.id] >= order[f]:
                fail('%s calls %s: the functions are not in call order (or recursive)' % (f, sub.func.id), sub)
    fresh = set()
    fns = {}
    for f in FUNCS:                      # call order: callees first
        fns[f] = Fn(nodes[f], frozenset(fresh))
        if fns[f].returns_fresh:
            fresh.add(f)
    t = HEADER
    t += '(* the chord label parser / encoder of mir_eval/chord.py as programs of Model/PyStr.v *)\n'
    t += 'From Coq Require Import String.\nFrom Coq Require Import List ZArith.\n'
    t += 'From ME Require Import Model.Prelude Model.PyStr.\nImport ListNotations.\nLocal Open Scope string_scope.\n'
    for f in FUNCS:
        t += '(* chord.%s *)\nDefinition gen_%s : fdef :=\n  %s.\n' % (f, f, fns[f].coq())
    t += '(* every function with its signature source; the callees that are not functions of the module *)\n'
    t += 'Definition chord_funs : list (string * fdef) :=\n  %s.\n' % clist(['(%s, gen_%s)' % (cstr(f), f) for f in FUNCS])
    t += 'Definition chord_prims : list (string * list (string * option exp)) :=\n  %s.\n' % clist(
        ['(%s, %s)' % (cstr(k), clist(['(%s, None)' % cstr(p) for p in v])) for k, v in sorted(PRIMS.items())])
    t += '(* functions all of whose returns are fresh objects (what the in-place writes of their callers rely on) *)\n'
    t += 'Definition chord_returns_fresh : list string := %s.\n' % clist([cstr(f) for f in FUNCS if f in fresh])
    return {'ChordParseGen.v': t}
