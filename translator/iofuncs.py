"""The annotation loaders of mir_eval/io.py -> coq/Gen/IOGen.v
(function bodies as programs of the sub-language of coq/Model/IoExp.v).

  load_delimited, load_events, load_labeled_events, load_intervals, load_labeled_intervals, load_valued_intervals,
  load_time_series, load_key, load_tempo, load_ragged_time_series, load_patterns

This file maps syntax only (Python ast; mir_eval is never imported; anything outside the fragment raises
TranslationError). What an operator / method / builtin does on each type of value - including which lists are shared
(heap), what try/except catches, what a message names - is defined by the evaluator of Model/IoExp.v;
Proofs/IOTie*.v prove the generated programs equal to the hand-written model functions of Model/IO.v for all inputs,
with the callees instantiated by the model's functions.

Accepted fragment
  def          positional-or-keyword parameters, defaults = literal (None / bool / int / float / str) or the builtins
               float / str; no decorator, *args, **kwargs
  statements   x = e | x1, ..., xk = e | x.append(e) (x a local) | warnings.warn(e) | <call> |
               if / elif / else | for <name or tuple of names> in e: (no else; the iterable must not mention a name
               the body writes or appends to) | continue (inside a for, not inside a try) |
               with _open(e, mode="r") as f: (f read exactly once in the block, never written) |
               try: <one simple statement> except [C | (C1, ..)] [as n]: ... (one handler, no else / finally) |
               return e | raise C(<literal str>) | raise C(<literal str>.format(args..)) [from <the handler's name>] | pass
  expressions  parameters and locals, None / bool / int / float / str literals, the builtins float / str as objects,
               tuples, lists, one comparison (== != < <= > >= `in` `is None` `is not None`), a chained comparison
               a op b op c with b a name or literal, not / and / or, a - b, e[i], e[i:], e.T e.args e.__name__,
               e.strip() e.split(s) e.startswith(s) e.splitlines() e.format(..) e.match(s) e.readlines() e.read(),
               len enumerate zip range list float str with positional arguments, tuple(<e> for <name> in <e>),
               re.compile(e), np.array(e), np.array(e, dtype=e), np.concatenate(e),
               calls of load_delimited, util.validate_events / validate_intervals, key.validate_key,
               tempo.validate_tempi (opaque callees, arguments as written: positional and keyword; their signatures
               are read from the source in the same run), calls of a function held by a local (converter(value)).
What this file decides itself
  * which names are locals (assigned / loop target / with target / except name); that `re`, `np`, `warnings`, `util`,
    `key`, `tempo` are the modules imported at the top and are not rebound; that the builtins used and the callees are
    not shadowed or rebound; that no function of FUNCS is decorated;
  * `_open` is an opaque step (text stream of the file's content); its definition must be EXACTLY the expected one
    (normalised source compared), since every loader's reading of the file goes through it.
"""
import ast
import os
from .common import module, top_func, codes, cq_Q, TranslationError, HEADER, REPO

OUTPUTS = ['IOGen.v']

FUNCS = ['load_delimited', 'load_events', 'load_labeled_events', 'load_intervals', 'load_labeled_intervals',
         'load_valued_intervals', 'load_time_series', 'load_key', 'load_tempo', 'load_ragged_time_series', 'load_patterns']
CALLEES_IO = ['load_delimited']
CALLEES_EXT = {'util.validate_events': ('util', 'validate_events'), 'util.validate_intervals': ('util', 'validate_intervals'),
               'key.validate_key': ('key', 'validate_key'), 'tempo.validate_tempi': ('tempo', 'validate_tempi')}
BUILTINS = {'len': (1, 1), 'enumerate': (1, 2), 'zip': (1, 9), 'range': (1, 1), 'list': (0, 0), 'float': (1, 1), 'str': (1, 1)}
FN_OBJECTS = {'float': 'CFloat', 'str': 'CStr'}
METHODS = {'strip': (0, 0), 'split': (1, 2), 'startswith': (1, 1), 'splitlines': (0, 0), 'format': (0, 9), 'match': (1, 1),
           'readlines': (0, 0), 'read': (0, 0)}
ATTRS = {'T', 'args', '__name__'}
EXN = {'ValueError': 'ValueError', 'TypeError': 'TypeError', 'KeyError': 'KeyError', 'IndexError': 'IndexError',
       'ZeroDivisionError': 'ZeroDivisionError'}
CMP = {ast.Eq: 'CEq', ast.NotEq: 'CNe', ast.Lt: 'CLt', ast.LtE: 'CLe', ast.Gt: 'CGt', ast.GtE: 'CGe'}
MODULES = {'re': ('import', 're'), 'np': ('import', 'numpy'), 'warnings': ('import', 'warnings'),
           'contextlib': ('import', 'contextlib'), 'util': ('from', 'util'), 'key': ('from', 'key'), 'tempo': ('from', 'tempo')}
RESERVED = set(BUILTINS) | set(MODULES) | set(EXN) | {'tuple', 'open', 'hasattr', 'isinstance', 'IOError', 'True', 'False', 'None', '_open'}
EXPECTED_OPEN = '''@contextlib.contextmanager
def _open(file_or_str, **kwargs):
    if hasattr(file_or_str, 'read'):
        yield file_or_str
    elif isinstance(file_or_str, str):
        with open(file_or_str, **kwargs) as file_desc:
            yield file_desc
    else:
        raise IOError('Invalid file-or-str object: {}'.format(file_or_str))'''


def fail(msg, node=None):
    where = ''
    if node is not None:
        where = ' at line %s: %s' % (getattr(node, 'lineno', '?'), ast.unparse(node)[:160])
    raise TranslationError('iofuncs: ' + msg + where)


def cstr(s):
    if not (isinstance(s, str) and s.isascii() and all(c.isalnum() or c in '_.' for c in s) and s):
        fail('unusual name %r' % (s,))
    return '"%s"' % s


def cz(n):
    if isinstance(n, bool) or not isinstance(n, int) or abs(n) >= 2 ** 62:
        fail('unsupported integer literal %r' % (n,))
    return '(%d)%%Z' % n


def clist(items):
    return '[' + '; '.join(items) + ']'


def strip_doc(fn):
    body = list(fn.body)
    if body and isinstance(body[0], ast.Expr) and isinstance(body[0].value, ast.Constant) and isinstance(body[0].value.value, str):
        body = body[1:]
    return body


# ----------------------------------------------------------------------------- module-level checks
def check_module(tree):
    tops = {}
    for n in tree.body:
        if isinstance(n, (ast.FunctionDef, ast.ClassDef, ast.AsyncFunctionDef)):
            tops.setdefault(n.name, []).append(n)
        elif isinstance(n, (ast.Import, ast.ImportFrom)):
            for a in n.names:
                tops.setdefault((a.asname or a.name).split('.')[0], []).append((n, a))
        elif isinstance(n, (ast.Assign, ast.AugAssign, ast.AnnAssign)):
            for t in (n.targets if isinstance(n, ast.Assign) else [n.target]):
                for m in ast.walk(t):
                    if isinstance(m, ast.Name):
                        tops.setdefault(m.id, []).append(n)
        elif isinstance(n, ast.Expr) and isinstance(n.value, ast.Constant):
            pass
        else:
            fail('module-level statement outside imports / defs / assignments (names may be rebound)', n)
    for name, (kind, what) in MODULES.items():
        b = tops.get(name, [])
        if len(b) != 1 or not isinstance(b[0], tuple):
            fail('`%s` is not bound exactly once by an import' % name)
        n, a = b[0]
        if kind == 'import':
            ok = isinstance(n, ast.Import) and a.name == what and (a.asname or a.name) == name
        else:
            ok = isinstance(n, ast.ImportFrom) and n.level == 1 and n.module is None and a.name == what and a.asname is None
        if not ok:
            fail('`%s` is not the expected module' % name, n)
    for b in list(BUILTINS) + ['tuple', 'open', 'hasattr', 'isinstance', 'IOError'] + list(EXN):
        if b in tops:
            fail('builtin %r is rebound at module level' % b)
    for f in FUNCS + ['_open']:
        if len(tops.get(f, [])) != 1 or not isinstance(tops[f][0], ast.FunctionDef):
            fail('%s is not bound exactly once, by a top-level def' % f)
    watched = set(FUNCS) | {'_open'} | set(MODULES) | set(BUILTINS)
    for n in ast.walk(tree):
        if isinstance(n, (ast.Global, ast.Nonlocal)) and watched & set(n.names):
            fail('global / nonlocal declaration of a watched name', n)
    for fn in tree.body:                       # no function of the module rebinds a watched name locally ... except our own checks below
        if isinstance(fn, ast.FunctionDef):
            for n in ast.walk(fn):
                if isinstance(n, ast.Name) and isinstance(n.ctx, (ast.Store, ast.Del)) and n.id in watched:
                    fail('%s assigns the watched name %s' % (fn.name, n.id), n)
                if isinstance(n, ast.arg) and n.arg in watched and fn.name in FUNCS + ['_open']:
                    fail('%s has a parameter named %s' % (fn.name, n.arg), fn)
    op = tops['_open'][0]
    node = ast.parse(ast.unparse(op)).body[0]
    node.body = strip_doc(node)
    if ast.unparse(node) != EXPECTED_OPEN:
        fail('_open is not the expected opaque step (its definition changed):\n' + ast.unparse(node))


def callee_sig(modname, fname):
    tree = module(modname)
    fn = top_func(tree, fname)
    return sig_of_def(fn, '%s.%s' % (modname, fname))


def sig_of_def(fn, label):
    a = fn.args
    if a.vararg or a.kwarg or a.kwonlyargs or a.posonlyargs or fn.decorator_list:
        fail('%s: unsupported signature / decorator' % label, fn)
    names = [p.arg for p in a.args]
    defaults = [None] * (len(names) - len(a.defaults)) + list(a.defaults)
    out = []
    for p, d in zip(names, defaults):
        if d is None:
            out.append('(%s, None)' % cstr(p))
        else:
            out.append('(%s, Some %s)' % (cstr(p), default_exp(d, label, p)))
    return names, clist(out)


def default_exp(d, label, p):
    if isinstance(d, ast.Constant):
        v = d.value
        if v is None:
            return 'ENone'
        if isinstance(v, bool):
            return '(EBool %s)' % ('true' if v else 'false')
        if isinstance(v, int):
            return '(EInt %s)' % cz(v)
        if isinstance(v, float):
            return '(EFloat %s)' % cq_Q(v)
        if isinstance(v, str):
            return '(EStr %s)' % codes(v)
    if isinstance(d, ast.Name) and d.id in FN_OBJECTS:
        return '(EFn %s)' % FN_OBJECTS[d.id]
    fail('%s: default of %s is outside the accepted literals' % (label, p), d)


# ----------------------------------------------------------------------------- one function
class Fn:
    def __init__(self, fn):
        self.name = fn.name
        self.params, self.sig = sig_of_def(fn, fn.name)
        self.body = strip_doc(fn)
        for n in ast.walk(fn):
            if isinstance(n, (ast.FunctionDef, ast.Lambda, ast.ClassDef, ast.AsyncFunctionDef)) and n is not fn:
                fail('%s: nested def / lambda / class' % self.name, n)
            if isinstance(n, (ast.Global, ast.Nonlocal, ast.Yield, ast.YieldFrom, ast.Await, ast.NamedExpr, ast.Delete,
                              ast.Starred, ast.While, ast.Break, ast.AugAssign, ast.AnnAssign, ast.Import, ast.ImportFrom,
                              ast.Assert, ast.ListComp, ast.SetComp, ast.DictComp, ast.IfExp, ast.Dict, ast.Set, ast.JoinedStr)):
                fail('%s: construct outside the accepted fragment' % self.name, n)
        comp_vars = set()
        for n in ast.walk(fn):
            if isinstance(n, ast.GeneratorExp):
                for g in n.generators:
                    for m in ast.walk(g.target):
                        if isinstance(m, ast.Name):
                            comp_vars.add(id(m))
        stored = []
        for n in ast.walk(fn):
            if isinstance(n, ast.Name) and isinstance(n.ctx, ast.Store) and id(n) not in comp_vars:
                if n.id not in stored:
                    stored.append(n.id)
            if isinstance(n, ast.ExceptHandler) and n.name and n.name not in stored:
                stored.append(n.name)
        self.locals = [x for x in stored if x not in self.params]
        for x in self.params + self.locals:
            if x in RESERVED or x in FUNCS:
                fail('%s: the name %s shadows a builtin / module / function' % (self.name, x))
        self.scope = []            # generator-expression variables in scope
        self.handler = None        # name bound by the enclosing except clause
        self.in_for = 0
        self.in_try = 0

    # ---- expressions
    def var(self, x, node):
        if x in self.scope or x in self.params or x in self.locals:
            return '(ELoc %s)' % cstr(x)
        fail('%s: unknown name %s' % (self.name, x), node)

    def exs(self, l):
        return clist([self.ex(a) for a in l])

    def ex(self, e):
        if isinstance(e, ast.Name):
            if e.id in self.scope or e.id in self.params or e.id in self.locals:
                return self.var(e.id, e)
            if e.id in FN_OBJECTS:
                return '(EFn %s)' % FN_OBJECTS[e.id]
            fail('%s: unknown name' % self.name, e)
        if isinstance(e, ast.Constant):
            v = e.value
            if v is None:
                return 'ENone'
            if isinstance(v, bool):
                return '(EBool %s)' % ('true' if v else 'false')
            if isinstance(v, int):
                return '(EInt %s)' % cz(v)
            if isinstance(v, float):
                return '(EFloat %s)' % cq_Q(v)
            if isinstance(v, str):
                return '(EStr %s)' % codes(v)
            fail('unsupported constant', e)
        if isinstance(e, ast.Tuple):
            return '(ETuple %s)' % self.exs(e.elts)
        if isinstance(e, ast.List):
            return '(EList %s)' % self.exs(e.elts)
        if isinstance(e, ast.Compare):
            if len(e.ops) == 1:
                return self.cmp1(e.left, e.ops[0], e.comparators[0], e)
            if len(e.ops) == 2 and isinstance(e.comparators[0], (ast.Name, ast.Constant)):
                mid = e.comparators[0]
                return '(EAnd %s %s)' % (self.cmp1(e.left, e.ops[0], mid, e), self.cmp1(mid, e.ops[1], e.comparators[1], e))
            fail('unsupported comparison chain', e)
        if isinstance(e, ast.BoolOp):
            op = 'EAnd' if isinstance(e.op, ast.And) else 'EOr'
            vals = [self.ex(v) for v in e.values]
            r = vals[-1]
            for v in reversed(vals[:-1]):
                r = '(%s %s %s)' % (op, v, r)
            return r
        if isinstance(e, ast.UnaryOp) and isinstance(e.op, ast.Not):
            return '(ENot %s)' % self.ex(e.operand)
        if isinstance(e, ast.UnaryOp) and isinstance(e.op, ast.USub) and isinstance(e.operand, ast.Constant) \
                and isinstance(e.operand.value, int) and not isinstance(e.operand.value, bool):
            return '(EInt %s)' % cz(-e.operand.value)
        if isinstance(e, ast.BinOp) and isinstance(e.op, ast.Sub):
            return '(ESub %s %s)' % (self.ex(e.left), self.ex(e.right))
        if isinstance(e, ast.Subscript):
            if isinstance(e.slice, ast.Slice):
                if e.slice.upper is not None or e.slice.step is not None or e.slice.lower is None:
                    fail('unsupported slice', e)
                return '(ESliceFrom %s %s)' % (self.ex(e.value), self.ex(e.slice.lower))
            return '(EIndex %s %s)' % (self.ex(e.value), self.ex(e.slice))
        if isinstance(e, ast.Attribute):
            if e.attr in ATTRS:
                return '(EAttr %s %s)' % (self.ex(e.value), cstr(e.attr))
            fail('unsupported attribute', e)
        if isinstance(e, ast.Call):
            return self.call(e)
        fail('%s: expression outside the accepted fragment' % self.name, e)

    def cmp1(self, a, op, b, node):
        if isinstance(op, (ast.Is, ast.IsNot)):
            if not (isinstance(b, ast.Constant) and b.value is None):
                fail('`is` with something other than None', node)
            return '(%s %s)' % ('EIsNone' if isinstance(op, ast.Is) else 'EIsNotNone', self.ex(a))
        if isinstance(op, ast.In):
            return '(EIn %s %s)' % (self.ex(a), self.ex(b))
        if type(op) in CMP:
            return '(ECmp %s %s %s)' % (CMP[type(op)], self.ex(a), self.ex(b))
        fail('unsupported comparison', node)

    def nokw(self, e):
        if e.keywords:
            fail('keyword arguments not accepted here', e)

    def call(self, e):
        f = e.func
        dotted = ast.unparse(f) if isinstance(f, (ast.Name, ast.Attribute)) else None
        if isinstance(f, ast.Name):
            x = f.id
            if x in self.scope or x in self.params or x in self.locals:
                self.nokw(e)
                return '(ECallV %s %s)' % (cstr(x), self.exs(e.args))
            if x == 'tuple':
                self.nokw(e)
                if len(e.args) == 1 and isinstance(e.args[0], ast.GeneratorExp):
                    g = e.args[0]
                    if len(g.generators) != 1 or g.generators[0].ifs or g.generators[0].is_async \
                            or not isinstance(g.generators[0].target, ast.Name):
                        fail('unsupported generator expression', e)
                    v = g.generators[0].target.id
                    if v in self.params or v in self.locals or v in RESERVED or v in self.scope:
                        fail('generator variable %s clashes with another name' % v, e)
                    it = self.ex(g.generators[0].iter)
                    self.scope.append(v)
                    body = self.ex(g.elt)
                    self.scope.pop()
                    return '(EGenTup %s %s %s)' % (body, cstr(v), it)
                fail('unsupported tuple(...)', e)
            if x in BUILTINS:
                self.nokw(e)
                lo, hi = BUILTINS[x]
                if not lo <= len(e.args) <= hi:
                    fail('unsupported number of arguments', e)
                return '(EBuiltin %s %s)' % (cstr(x), self.exs(e.args))
            if x in CALLEES_IO:
                return self.opaque(x, e)
            fail('%s: call of an unknown function' % self.name, e)
        if dotted in CALLEES_EXT:
            return self.opaque(dotted, e)
        if dotted == 're.compile':
            self.nokw(e)
            if len(e.args) != 1:
                fail('re.compile with flags', e)
            return '(EBuiltin "re.compile" %s)' % self.exs(e.args)
        if dotted == 'np.array':
            if len(e.args) == 1 and not e.keywords:
                return '(EBuiltin "np.array" %s)' % self.exs(e.args)
            if len(e.args) == 1 and len(e.keywords) == 1 and e.keywords[0].arg == 'dtype':
                return '(EBuiltin "np.array_dtype" %s)' % clist([self.ex(e.args[0]), self.ex(e.keywords[0].value)])
            fail('unsupported np.array call', e)
        if dotted == 'np.concatenate':
            self.nokw(e)
            if len(e.args) != 1:
                fail('unsupported np.concatenate call', e)
            return '(EBuiltin "np.concatenate" %s)' % self.exs(e.args)
        if isinstance(f, ast.Attribute) and f.attr in METHODS:
            self.nokw(e)
            lo, hi = METHODS[f.attr]
            if not lo <= len(e.args) <= hi:
                fail('unsupported number of arguments', e)
            if isinstance(f.value, ast.Name) and f.value.id in MODULES:
                fail('method of a module', e)
            return '(EMeth %s %s %s)' % (self.ex(f.value), cstr(f.attr), self.exs(e.args))
        fail('%s: call outside the accepted fragment' % self.name, e)

    def opaque(self, name, e):
        kws = []
        for k in e.keywords:
            if k.arg is None:
                fail('**kwargs in a call', e)
            kws.append('(%s, %s)' % (cstr(k.arg), self.ex(k.value)))
        return '(ECall %s %s %s)' % (cstr(name), self.exs(e.args), clist(kws))

    # ---- statements
    def written_in(self, stmts):
        w = set()
        for s in stmts:
            for n in ast.walk(s):
                if isinstance(n, ast.Name) and isinstance(n.ctx, ast.Store):
                    w.add(n.id)
                if isinstance(n, ast.ExceptHandler) and n.name:
                    w.add(n.name)
                if isinstance(n, ast.Call) and isinstance(n.func, ast.Attribute) and n.func.attr == 'append' \
                        and isinstance(n.func.value, ast.Name):
                    w.add(n.func.value.id)
        return w

    def fmt_block(self, items, ind):
        if not items:
            return '[]'
        pad = '  ' * ind
        return '[\n' + ';\n'.join(pad + '  ' + i for i in items) + ']'

    def block(self, stmts, ind):
        out = []
        for i, s in enumerate(stmts):
            out.append(self.stmt(s, ind))
            if isinstance(s, (ast.Return, ast.Raise, ast.Continue)) and i + 1 < len(stmts):
                fail('statement after return / raise / continue', stmts[i + 1])
        return out

    def target(self, t, node):
        if isinstance(t, ast.Name):
            return [t.id]
        if isinstance(t, ast.Tuple) and len(t.elts) >= 2 and all(isinstance(m, ast.Name) for m in t.elts) \
                and len({m.id for m in t.elts}) == len(t.elts):
            return [m.id for m in t.elts]
        fail('unsupported target', node)

    def stmt(self, s, ind):
        if isinstance(s, ast.Pass):
            return 'SPass'
        if isinstance(s, ast.Continue):
            if not self.in_for or self.in_try:
                fail('continue outside a for loop / inside a try', s)
            return 'SContinue'
        if isinstance(s, ast.Expr):
            v = s.value
            if isinstance(v, ast.Call) and isinstance(v.func, ast.Attribute) and v.func.attr == 'append':
                if not (isinstance(v.func.value, ast.Name) and v.func.value.id in self.locals and len(v.args) == 1 and not v.keywords):
                    fail('append on something that is not a local', s)
                return 'SAppend %s %s' % (cstr(v.func.value.id), self.ex(v.args[0]))
            if isinstance(v, ast.Call) and ast.unparse(v.func) == 'warnings.warn':
                if len(v.args) != 1 or v.keywords:
                    fail('unsupported warnings.warn call', s)
                return 'SWarn %s' % self.ex(v.args[0])
            if isinstance(v, ast.Call):
                return 'SExpr %s' % self.ex(v)
            fail('expression statement that is not a call', s)
        if isinstance(s, ast.Assign):
            if len(s.targets) != 1:
                fail('chained assignment', s)
            xs = self.target(s.targets[0], s)
            if len(xs) == 1:
                return 'SAssign %s %s' % (cstr(xs[0]), self.ex(s.value))
            return 'SUnpack %s %s' % (clist([cstr(x) for x in xs]), self.ex(s.value))
        if isinstance(s, ast.If):
            a = self.block(s.body, ind + 1)
            b = self.block(s.orelse, ind + 1)
            return 'SIf %s %s %s' % (self.ex(s.test), self.fmt_block(a, ind + 1), self.fmt_block(b, ind + 1))
        if isinstance(s, ast.For):
            if s.orelse:
                fail('for ... else', s)
            xs = self.target(s.target, s)
            used = {m.id for m in ast.walk(s.iter) if isinstance(m, ast.Name)}
            clash = used & (self.written_in(s.body) | set(xs))
            if clash:
                fail('the iterable of a loop mentions %s, which the loop writes' % sorted(clash), s)
            it = self.ex(s.iter)
            self.in_for += 1
            saved_try, self.in_try = self.in_try, 0
            body = self.block(s.body, ind + 1)
            self.in_try = saved_try
            self.in_for -= 1
            return 'SFor %s %s %s' % (clist([cstr(x) for x in xs]), it, self.fmt_block(body, ind + 1))
        if isinstance(s, ast.With):
            if len(s.items) != 1 or not isinstance(s.items[0].optional_vars, ast.Name):
                fail('unsupported with statement', s)
            c = s.items[0].context_expr
            x = s.items[0].optional_vars.id
            if not (isinstance(c, ast.Call) and isinstance(c.func, ast.Name) and c.func.id == '_open' and len(c.args) == 1
                    and len(c.keywords) == 1 and c.keywords[0].arg == 'mode' and isinstance(c.keywords[0].value, ast.Constant)
                    and c.keywords[0].value.value == 'r'):
                fail('with statement on something other than _open(<e>, mode="r")', s)
            reads = [n for b in s.body for n in ast.walk(b) if isinstance(n, ast.Name) and n.id == x]
            if len(reads) != 1 or not isinstance(reads[0].ctx, ast.Load):
                fail('the stream %s must be read exactly once in the with block' % x, s)
            outside = [n for n in ast.walk(ast.Module(body=self.body, type_ignores=[])) if isinstance(n, ast.Name) and n.id == x]
            if len(outside) != 2:
                fail('the stream %s is used outside its with block' % x, s)
            e = '(ECall "_open" %s [("mode", EStr %s)])' % (self.exs(c.args), codes('r'))
            body = self.block(s.body, ind + 1)
            return 'SWith %s %s %s' % (cstr(x), e, self.fmt_block(body, ind + 1))
        if isinstance(s, ast.Try):
            if s.orelse or s.finalbody or len(s.handlers) != 1 or len(s.body) != 1:
                fail('unsupported try statement', s)
            if not isinstance(s.body[0], (ast.Assign, ast.Expr)):
                fail('the body of a try must be one simple statement', s)
            h = s.handlers[0]
            if h.type is None:
                classes = 'None'
            else:
                ts = h.type.elts if isinstance(h.type, ast.Tuple) else [h.type]
                if not ts or not all(isinstance(t, ast.Name) and t.id in EXN for t in ts):
                    fail('unsupported exception classes', s)
                classes = '(Some %s)' % clist([EXN[t.id] for t in ts])
            self.in_try += 1
            inner = self.stmt(s.body[0], ind + 1)
            if inner.split()[0] not in ('SAssign', 'SUnpack', 'SExpr'):
                fail('the body of a try must be an assignment or a call', s)
            saved = self.handler
            self.handler = h.name
            hb = self.block(h.body, ind + 1)
            self.handler = saved
            self.in_try -= 1
            name = 'None' if h.name is None else '(Some %s)' % cstr(h.name)
            return 'STry (%s) %s %s %s' % (inner, classes, name, self.fmt_block(hb, ind + 1))
        if isinstance(s, ast.Return):
            if s.value is None:
                fail('bare return', s)
            return 'SReturn %s' % self.ex(s.value)
        if isinstance(s, ast.Raise):
            e = s.exc
            if s.cause is not None and not (isinstance(s.cause, ast.Name) and self.handler is not None and s.cause.id == self.handler):
                fail('raise ... from something other than the handled exception', s)
            if not (isinstance(e, ast.Call) and isinstance(e.func, ast.Name) and e.func.id in EXN and len(e.args) == 1 and not e.keywords):
                fail('unsupported raise', s)
            m = e.args[0]
            if isinstance(m, ast.Constant) and isinstance(m.value, str):
                fmt, args = m.value, []
                if '{' in fmt or '}' in fmt:
                    fail('braces in a literal message', s)
            elif isinstance(m, ast.Call) and isinstance(m.func, ast.Attribute) and m.func.attr == 'format' and not m.keywords \
                    and isinstance(m.func.value, ast.Constant) and isinstance(m.func.value.value, str):
                fmt, args = m.func.value.value, m.args
            else:
                fail('unsupported exception message', s)
            return 'SRaise %s %s %s' % (EXN[e.func.id], codes(fmt), self.exs(args))
        fail('%s: statement outside the accepted fragment' % self.name, s)

    def coq(self):
        body = self.block(self.body, 1)
        return ('{| f_params := %s;\n     f_locals := %s;\n     f_body := %s |}'
                % (self.sig, clist([cstr(x) for x in self.locals]), self.fmt_block(body, 2)))


def generate():
    tree = module('io')
    check_module(tree)
    fns = {f: Fn(top_func(tree, f)) for f in FUNCS}
    t = HEADER
    t += '(* the annotation loaders of mir_eval/io.py as programs of Model/IoExp.v *)\n'
    t += 'From Coq Require Import String.\nFrom Coq Require Import List ZArith QArith.\n'
    t += 'From ME Require Import Model.Prelude Model.IO Model.IoExp.\nImport ListNotations.\nLocal Open Scope string_scope.\n'
    for f in FUNCS:
        t += '(* io.%s *)\nDefinition gen_%s : fdef :=\n  %s.\n' % (f, f, fns[f].coq())
    t += 'Definition io_funs : list (string * fdef) :=\n  %s.\n' % clist(['(%s, gen_%s)' % (cstr(f), f) for f in FUNCS])
    t += '(* the opaque callees with their parameters (read from the source in this run); _open(file_or_str, **kwargs) is\n'
    t += '   pinned by the translator and only ever called as _open(<e>, mode="r") *)\n'
    ext = ['("_open", [("file_or_str", None); ("mode", None)])']
    for k in sorted(CALLEES_EXT):
        ext.append('(%s, %s)' % (cstr(k), callee_sig(*CALLEES_EXT[k])[1]))
    t += 'Definition io_callees : list (string * list (string * option exp)) :=\n  %s.\n' % clist(ext)
    return {'IOGen.v': t}
