"""mir_eval.chord.directional_hamming_distance -> coq/Gen/CoreDhdGen.v
(the function body as a program of the Python / NumPy sub-language of coq/Model/DhdExp.v).

This file maps syntax only (Python ast; mir_eval is never imported; anything outside the fragment raises
TranslationError). What an operator / NumPy function / method does on each type of value is defined by the evaluator
of Model/DhdExp.v (on the values and operators of Model/IvExp.v); Proofs/CoreDhdTie.v proves the generated program
equal to the hand-written model function Model/ChordPipeline.directional_hamming_distance for all inputs.

Accepted fragment
  def          positional-or-keyword parameters without defaults; no decorator, *args, **kwargs, annotations
  statements   x = e | a, b = e | x op= e (op in + - * /, x a name) | util.<callee>(...) as a statement |
               raise <builtin exception>(<str literal>) | if / elif / else |
               for <name or tuple of names> in e: (no else / break / continue) | return [e] | pass
               (no statement after a return / raise in the same block)
  expressions  parameters and locals, None / bool / int / float literals, -<int literal>, tuples, lists,
               one comparison (== != < <= > >=), not / and / or, + - * / %, a & b,
               e[i], e[i, j], e[lo:hi], e[lo:hi, j], e.flatten() e.any() e.max() e.min(), len(e),
               np.<f>(positional arguments) for f in NP, util.<callee>(arguments as written: positional and keyword)
               for the callees of PRIMS (opaque; signature read from mir_eval/util.py in the same run).
What this file decides itself
  * which names are locals (assigned anywhere in the body); that `np` is numpy and `util` is mir_eval.util (each bound
    exactly once at module level, by `import numpy as np` and `from mir_eval import util` / `from . import util`);
    that every callee has exactly one top-level def in util.py (no decorator); that the names given a fixed meaning
    (builtins included) are not shadowed or rebound;
  * there is no in-place write in the fragment: a store into a subscript / attribute and every mutating method is
    rejected; `x op= e` is passed on as such (the evaluator defines it on scalars only).
"""
import ast
from fractions import Fraction
from .common import module, top_func, TranslationError, HEADER

OUTPUTS = ['CoreDhdGen.v']

MODULE = 'chord'
FUNCS = ['directional_hamming_distance']
PRIMS = [('util', 'validate_intervals')]          # opaque callees (module, function)
NP = {'unique': {1}, 'hstack': {1}, 'diff': {1}, 'any': {1}}
BUILTINS = {'len': {1}}
METHODS = {'flatten', 'any', 'max', 'min'}
CMP = {ast.Eq: 'Eq', ast.NotEq: 'Ne', ast.Lt: 'Lt', ast.LtE: 'Le', ast.Gt: 'Gt', ast.GtE: 'Ge'}
BIN = {ast.Add: 'Add', ast.Sub: 'Sub', ast.Mult: 'Mul', ast.Div: 'Div', ast.Mod: 'Mod'}
EXNS = {'ValueError': 'ValueError', 'IndexError': 'IndexError', 'TypeError': 'TypeError', 'KeyError': 'KeyError'}
WATCHED = {'np', 'util', 'True', 'False', 'None'} | set(BUILTINS) | set(EXNS)


def fail(msg, node=None):
    where = ''
    if node is not None:
        where = ' at line %s: %s' % (getattr(node, 'lineno', '?'), ast.unparse(node)[:160])
    raise TranslationError('corefuncs_dhd: ' + msg + where)


def cstr(s):
    if not (isinstance(s, str) and s.replace('.', '_').isidentifier() and s.isascii()):
        fail('unusual name %r' % (s,))
    return '"%s"' % s


def cz(n):
    if isinstance(n, bool) or not isinstance(n, int) or abs(n) >= 2 ** 62:
        fail('unsupported integer literal %r' % (n,))
    return '(%d)%%Z' % n


def cq(x):
    """the exact binary value of a float literal"""
    if not isinstance(x, float) or x != x or x in (float('inf'), float('-inf')):
        fail('unsupported float literal %r' % (x,))
    f = Fraction(x)
    if f.numerator < 0:
        return '((%d)#%d)%%Q' % (f.numerator, f.denominator)
    return '(%d#%d)%%Q' % (f.numerator, f.denominator)


def clist(items):
    return '[' + '; '.join(items) + ']'


def copt(x):
    return 'None' if x is None else '(Some %s)' % x


# ----------------------------------------------------------------------------- module-level checks
def check_module(tree):
    tops = {}
    for n in tree.body:
        if isinstance(n, (ast.FunctionDef, ast.ClassDef, ast.AsyncFunctionDef)):
            tops.setdefault(n.name, []).append(n)
        elif isinstance(n, (ast.Import, ast.ImportFrom)):
            for a in n.names:
                tops.setdefault((a.asname or a.name).split('.')[0], []).append(n)
        elif isinstance(n, (ast.Assign, ast.AugAssign, ast.AnnAssign)):
            for t in (n.targets if isinstance(n, ast.Assign) else [n.target]):
                for m in ast.walk(t):
                    if isinstance(m, ast.Name):
                        tops.setdefault(m.id, []).append(n)
        elif isinstance(n, ast.Expr) and isinstance(n.value, ast.Constant):
            pass
        else:
            fail('module-level statement other than import / def / assignment (names may be rebound)', n)
    np_ok = [n for n in tops.get('np', []) if isinstance(n, ast.Import) and len(n.names) == 1
             and n.names[0].name == 'numpy' and n.names[0].asname == 'np']
    if len(tops.get('np', [])) != 1 or len(np_ok) != 1:
        fail('`np` is not bound exactly once by `import numpy as np`')
    ut_ok = [n for n in tops.get('util', []) if isinstance(n, ast.ImportFrom) and len(n.names) == 1
             and n.names[0].name == 'util' and n.names[0].asname is None
             and ((n.level == 0 and n.module == 'mir_eval') or (n.level == 1 and n.module is None))]
    if len(tops.get('util', [])) != 1 or len(ut_ok) != 1:
        fail('`util` is not bound exactly once by `from mir_eval import util` / `from . import util`')
    for b in list(BUILTINS) + list(EXNS):
        if b in tops:
            fail('builtin %s is rebound at module level' % b)
    for f in FUNCS:
        if len(tops.get(f, [])) != 1 or not isinstance(tops[f][0], ast.FunctionDef):
            fail('%s is not bound exactly once, by a top-level def' % f)
    for n in ast.walk(tree):
        if isinstance(n, (ast.Global, ast.Nonlocal)) and WATCHED & set(n.names):
            fail('global / nonlocal declaration of a name with a fixed meaning', n)
        if isinstance(n, ast.Name) and n.id in WATCHED and isinstance(n.ctx, (ast.Store, ast.Del)):
            fail('second binding of the name %s' % n.id, n)
        if isinstance(n, ast.Attribute) and isinstance(n.ctx, (ast.Store, ast.Del)) and isinstance(n.value, ast.Name) \
                and n.value.id in WATCHED:
            fail('attribute of %s is rebound' % n.value.id, n)
        if isinstance(n, (ast.FunctionDef, ast.AsyncFunctionDef, ast.Lambda)):
            a = n.args
            for x in a.posonlyargs + a.args + a.kwonlyargs + [y for y in (a.vararg, a.kwarg) if y is not None]:
                if x.arg in ('np', 'util') and isinstance(n, ast.FunctionDef) and n.name in FUNCS:
                    fail('parameter shadows %s' % x.arg, n)


def check_prim_module(mod, tree, names):
    """every callee is bound exactly once in its module, by a top-level def, and never assigned at module level"""
    for n in tree.body:
        targets = n.targets if isinstance(n, ast.Assign) else ([n.target] if isinstance(n, (ast.AugAssign, ast.AnnAssign)) else [])
        for t in targets:
            for m in ast.walk(t):
                if isinstance(m, ast.Name) and m.id in names:
                    fail('%s rebinds %s at module level' % (mod, m.id), n)
        if isinstance(n, (ast.Import, ast.ImportFrom)):
            for a in n.names:
                if (a.asname or a.name).split('.')[0] in names:
                    fail('%s rebinds %s by an import' % (mod, a.asname or a.name), n)
        if isinstance(n, ast.ClassDef) and n.name in names:
            fail('%s rebinds %s by a class' % (mod, n.name), n)
    for n in ast.walk(tree):
        if isinstance(n, (ast.Global, ast.Nonlocal)) and set(names) & set(n.names):
            fail('%s: global / nonlocal declaration of a callee' % mod, n)


def prim_sig(mod, node):
    a = node.args
    if node.decorator_list or a.posonlyargs or a.kwonlyargs or a.vararg or a.kwarg or a.defaults:
        fail('%s.%s: unexpected signature or decorator' % (mod, node.name), node)
    if len(set(x.arg for x in a.args)) != len(a.args):
        fail('%s.%s: duplicate parameter' % (mod, node.name), node)
    return clist(['(%s, None)' % cstr(x.arg) for x in a.args])


# ----------------------------------------------------------------------------- one function
class Fn:
    def __init__(self, node):
        self.node = node
        self.name = node.name
        a = node.args
        if node.decorator_list or a.posonlyargs or a.kwonlyargs or a.vararg or a.kwarg or a.defaults \
                or node.returns is not None:
            fail('%s: unexpected signature or decorator' % self.name, node)
        self.params = [x.arg for x in a.args]
        if any(x.annotation is not None for x in a.args):
            fail('%s: annotated parameter' % self.name, node)
        for sub in ast.walk(node):
            if sub is not node and isinstance(sub, (
                    ast.Lambda, ast.FunctionDef, ast.AsyncFunctionDef, ast.ClassDef, ast.Global, ast.Nonlocal, ast.NamedExpr,
                    ast.Await, ast.Yield, ast.YieldFrom, ast.While, ast.Try, ast.With, ast.Break, ast.Continue, ast.Delete,
                    ast.Import, ast.ImportFrom, ast.Starred, ast.SetComp, ast.DictComp, ast.GeneratorExp, ast.ListComp,
                    ast.AnnAssign, ast.JoinedStr, ast.Set, ast.Dict, ast.IfExp, ast.Assert)):
                fail('%s: unsupported construct %s' % (self.name, type(sub).__name__), sub)
            if isinstance(sub, (ast.Subscript, ast.Attribute)) and isinstance(sub.ctx, (ast.Store, ast.Del)):
                fail('%s: store into a subscript / attribute (no in-place write in the fragment)' % self.name, sub)
        self.locals = []                 # in the order of their first store in the text
        stores = [sub for sub in ast.walk(node) if isinstance(sub, ast.Name) and isinstance(sub.ctx, ast.Store)]
        for sub in sorted(stores, key=lambda m: (m.lineno, m.col_offset)):
            if sub.id not in self.params and sub.id not in self.locals:
                self.locals.append(sub.id)
        for x in self.params + self.locals:
            if not (x.isidentifier() and x.isascii()) or x in WATCHED:
                fail('%s: the local name %r shadows a name this translator gives a fixed meaning' % (self.name, x), node)
        if len(set(self.params)) != len(self.params):
            fail('%s: duplicate parameter' % self.name, node)
        self.body = list(node.body)
        if self.body and isinstance(self.body[0], ast.Expr) and isinstance(self.body[0].value, ast.Constant) \
                and isinstance(self.body[0].value.value, str):
            self.body = self.body[1:]

    # ---- expressions ----
    def int_lit(self, n):
        if isinstance(n, ast.Constant) and isinstance(n.value, int) and not isinstance(n.value, bool):
            return n.value
        if isinstance(n, ast.UnaryOp) and isinstance(n.op, ast.USub) and isinstance(n.operand, ast.Constant) \
                and isinstance(n.operand.value, int) and not isinstance(n.operand.value, bool):
            return -n.operand.value
        return None

    def ex(self, n):
        if isinstance(n, ast.Constant):
            c = n.value
            if c is None:
                return 'DNone'
            if isinstance(c, bool):
                return '(DBool %s)' % ('true' if c else 'false')
            if isinstance(c, int):
                return '(DInt %s)' % cz(c)
            if isinstance(c, float):
                return '(DFloat %s)' % cq(c)
            fail('unsupported literal', n)
        if isinstance(n, ast.Name):
            if not isinstance(n.ctx, ast.Load):
                fail('unexpected store', n)
            if n.id in self.params or n.id in self.locals:
                return '(DLoc %s)' % cstr(n.id)
            fail('name %r is not a parameter or a local' % n.id, n)
        if isinstance(n, ast.Tuple):
            return '(DTuple %s)' % clist([self.ex(x) for x in n.elts])
        if isinstance(n, ast.List):
            return '(DList %s)' % clist([self.ex(x) for x in n.elts])
        if isinstance(n, ast.UnaryOp):
            if isinstance(n.op, ast.Not):
                return '(DNot %s)' % self.ex(n.operand)
            if self.int_lit(n) is not None:
                return '(DInt %s)' % cz(self.int_lit(n))
            fail('unsupported unary operator', n)
        if isinstance(n, ast.BoolOp):
            comb = 'DAnd' if isinstance(n.op, ast.And) else 'DOr'
            parts = [self.ex(x) for x in n.values]
            out = parts[-1]
            for p in reversed(parts[:-1]):
                out = '(%s %s %s)' % (comb, p, out)
            return out
        if isinstance(n, ast.Compare):
            if len(n.ops) != 1:
                fail('chained comparison', n)
            op, a, b = n.ops[0], n.left, n.comparators[0]
            if type(op) in CMP:
                return '(DCmp %s %s %s)' % (CMP[type(op)], self.ex(a), self.ex(b))
            fail('unsupported comparison', n)
        if isinstance(n, ast.BinOp):
            if isinstance(n.op, ast.BitAnd):
                return '(DBitAnd %s %s)' % (self.ex(n.left), self.ex(n.right))
            if type(n.op) not in BIN:
                fail('unsupported binary operator', n)
            return '(DBin %s %s %s)' % (BIN[type(n.op)], self.ex(n.left), self.ex(n.right))
        if isinstance(n, ast.Subscript):
            if not isinstance(n.ctx, ast.Load):
                fail('unexpected store', n)
            return self.subscript(n)
        if isinstance(n, ast.Call):
            return self.call(n)
        fail('expression outside the accepted fragment', n)

    def bound(self, b):
        return copt(None if b is None else self.ex(b))

    def subscript(self, n):
        s = n.slice
        if isinstance(s, ast.Slice):
            if s.step is not None:
                fail('slice with a step', n)
            return '(DSlice %s %s %s)' % (self.ex(n.value), self.bound(s.lower), self.bound(s.upper))
        if isinstance(s, ast.Tuple):
            if len(s.elts) != 2:
                fail('index with more than two components', n)
            i, j = s.elts
            if isinstance(j, ast.Slice):
                fail('two-dimensional slicing is accepted as e[lo:hi, j] only', n)
            if isinstance(i, ast.Slice):
                if i.step is not None:
                    fail('slice with a step', n)
                return '(DSliceCol %s %s %s %s)' % (self.ex(n.value), self.bound(i.lower), self.bound(i.upper), self.ex(j))
            return '(DIndex2 %s %s %s)' % (self.ex(n.value), self.ex(i), self.ex(j))
        return '(DIndex %s %s)' % (self.ex(n.value), self.ex(s))

    def call(self, n):
        f = n.func
        if isinstance(f, ast.Name):
            if f.id in self.params or f.id in self.locals:
                fail('call of a local', n)
            if f.id in BUILTINS:
                if n.keywords or len(n.args) not in BUILTINS[f.id]:
                    fail('%s with unexpected arguments' % f.id, n)
                return '(DNp %s %s)' % (cstr(f.id), clist([self.ex(x) for x in n.args]))
            fail('call of an unknown function %r' % f.id, n)
        if isinstance(f, ast.Attribute):
            if isinstance(f.value, ast.Name) and f.value.id == 'np':
                if n.keywords or f.attr not in NP or len(n.args) not in NP[f.attr]:
                    fail('unsupported NumPy function / arguments np.%s' % f.attr, n)
                return '(DNp %s %s)' % (cstr('np.' + f.attr), clist([self.ex(x) for x in n.args]))
            if isinstance(f.value, ast.Name) and f.value.id == 'util':
                if ('util', f.attr) not in PRIMS:
                    fail('call of an unknown function util.%s' % f.attr, n)
                kws = []
                for k in n.keywords:
                    if k.arg is None:
                        fail('**kwargs in a call', n)
                    kws.append('(%s, %s)' % (cstr(k.arg), self.ex(k.value)))
                return '(DCall %s %s %s)' % (cstr('util.' + f.attr), clist([self.ex(x) for x in n.args]), clist(kws))
            if f.attr in METHODS:
                if n.keywords or n.args:
                    fail('method %s with arguments' % f.attr, n)
                return '(DMeth %s %s [])' % (self.ex(f.value), cstr(f.attr))
            fail('unsupported method %s' % f.attr, n)
        fail('unsupported call', n)

    # ---- statements ----
    def block(self, stmts, ind):
        out = []
        for i, s in enumerate(stmts):
            out.extend(self.stmt(s, ind))
            if isinstance(s, (ast.Return, ast.Raise)) and i + 1 < len(stmts):
                fail('statement after return / raise', stmts[i + 1])
        return out

    def fmt_block(self, items, ind):
        pad = '\n' + '  ' * (ind + 1)
        if not items:
            return '[]'
        return '[' + pad + (';' + pad).join(items) + ']'

    def target(self, t):
        if isinstance(t, ast.Name):
            return '(TName %s)' % cstr(t.id)
        if isinstance(t, ast.Tuple) and all(isinstance(x, ast.Name) for x in t.elts):
            names = [x.id for x in t.elts]
            if len(set(names)) != len(names):
                fail('repeated name in a tuple target', t)
            return '(TTuple %s)' % clist([cstr(x) for x in names])
        fail('unsupported assignment / loop target', t)

    def stmt(self, s, ind):
        if isinstance(s, ast.Pass):
            return ['DPass']
        if isinstance(s, ast.Raise):
            e = s.exc
            if s.cause is not None or not (isinstance(e, ast.Call) and isinstance(e.func, ast.Name) and e.func.id in EXNS
                                           and not e.keywords and len(e.args) <= 1
                                           and all(isinstance(a, ast.Constant) and isinstance(a.value, str) for a in e.args)):
                fail('raise is accepted as raise <builtin exception>(<str literal>) only', s)
            return ['DRaise %s' % EXNS[e.func.id]]
        if isinstance(s, ast.Expr):
            v = s.value
            if isinstance(v, ast.Call) and isinstance(v.func, ast.Attribute) and isinstance(v.func.value, ast.Name) \
                    and v.func.value.id == 'util':
                return ['DExpr %s' % self.ex(v)]
            fail('expression statement outside the accepted fragment', s)
        if isinstance(s, ast.Assign):
            if len(s.targets) != 1:
                fail('chained assignment', s)
            t = s.targets[0]
            if isinstance(t, (ast.Name, ast.Tuple)):
                return ['DAssign %s %s' % (self.target(t), self.ex(s.value))]
            fail('unsupported assignment target', s)
        if isinstance(s, ast.AugAssign):
            if not isinstance(s.target, ast.Name) or type(s.op) not in BIN or isinstance(s.op, ast.Mod):
                fail('unsupported augmented assignment', s)
            return ['DAug %s %s %s' % (cstr(s.target.id), BIN[type(s.op)], self.ex(s.value))]
        if isinstance(s, ast.If):
            a = self.block(s.body, ind + 1)
            b = self.block(s.orelse, ind + 1)
            return ['DIf %s %s %s' % (self.ex(s.test), self.fmt_block(a, ind + 1), self.fmt_block(b, ind + 1))]
        if isinstance(s, ast.For):
            if s.orelse:
                fail('for ... else', s)
            body = self.block(s.body, ind + 1)
            return ['DFor %s %s %s' % (self.target(s.target), self.ex(s.iter), self.fmt_block(body, ind + 1))]
        if isinstance(s, ast.Return):
            return ['DReturn %s' % ('DNone' if s.value is None else self.ex(s.value))]
        fail('statement outside the accepted fragment', s)

    def coq(self):
        body = self.block(self.body, 1)
        return ('{| d_params := %s;\n     d_locals := %s;\n     d_body := %s |}'
                % (clist([cstr(p) for p in self.params]), clist([cstr(x) for x in self.locals]), self.fmt_block(body, 2)))


def generate():
    tree = module(MODULE)
    check_module(tree)
    fns = {f: Fn(top_func(tree, f)) for f in FUNCS}
    prim_trees = {}
    for m, f in PRIMS:
        if m not in prim_trees:
            prim_trees[m] = module(m)
            check_prim_module(m, prim_trees[m], [g for mm, g in PRIMS if mm == m])
    t = HEADER
    t += '(* mir_eval.chord.directional_hamming_distance as a program of Model/DhdExp.v *)\n'
    t += 'From Coq Require Import String.\nFrom Coq Require Import List ZArith QArith.\n'
    t += 'From ME Require Import Model.Prelude Model.IvExp Model.DhdExp.\nImport ListNotations.\n'
    t += 'Local Open Scope nat_scope.\nLocal Open Scope string_scope.\n'
    for f in FUNCS:
        t += '(* %s.%s *)\nDefinition gen_%s : dfdef :=\n  %s.\n' % (MODULE, f, f.lstrip('_'), fns[f].coq())
    t += '(* the callees that are not translated here, with the signatures read from their modules *)\n'
    t += 'Definition dhd_prims : list (string * list (string * option exp)) :=\n  %s.\n' % clist(
        ['(%s, %s)' % (cstr(m + '.' + p), prim_sig(m, top_func(prim_trees[m], p))) for m, p in PRIMS])
    return {'CoreDhdGen.v': t}
