"""mir_eval.beat.p_score -> coq/Gen/CorePScoreGen.v
(the function body as a program of the Python / NumPy sub-language of coq/Model/BeatExp.v, evaluated with the
extended primitive tables of coq/Model/PScoreExp.v).

This file maps syntax only (Python ast; mir_eval is never imported; anything outside the fragment raises
TranslationError). It reuses the function translator of translator/beatfuncs.py (class Fn: signature, locals,
statements, expressions) and adds the forms p_score needs; what every form means on each type of value is defined
by the evaluator of Model/PScoreExp.v; Proofs/CorePScoreTie*.v prove the generated program equal to Beat.p_score
for all inputs, with the callee `validate` instantiated by the model.

Accepted in addition to the fragment of beatfuncs.py
  int(e), min(a, b)                  builtins (checked not to be rebound)              -> ENp "int" / "min"
  np.ceil(e) np.round(e) np.median(e) np.array(e) np.int64(e)                          -> ENp "np.<f>"
  np.correlate(a, v, "full")         third argument the literal "full" only            -> ENp "np.correlate_full" [a; v]
  e.astype(np.int64)                                                                   -> EMeth e "astype_int64" []
  <float literal> / <float literal>  folded with Python's own binary64 division; the operands and the result are
                                     handed to the evaluator, which accepts the result only if it is within
                                     2^-54 |r| of the exact quotient                  -> ENp "fdiv_const" [a; b; r]
  x[idx] = e                         idx any expression (an index array is decided by the evaluator); the aliasing
                                     side condition on x is that of beatfuncs.py, with the NumPy functions above
                                     counted as creating new objects / reading their arguments only.
"""
import ast
from fractions import Fraction
from .common import module, top_func, TranslationError, HEADER
from . import beatfuncs as B
from .beatfuncs import Fn, cstr, clist, cq, prim_sig

OUTPUTS = ['CorePScoreGen.v']

FUNC = 'p_score'
PRIMS = ['validate']
# NumPy functions taken with positional arguments only (all return new objects and only read their arguments)
NP2 = dict(B.NP)
NP2.update({'ceil': {1}, 'round': {1}, 'median': {1}, 'array': {1}, 'int64': {1}})
NP_FRESH = set(NP2) | {'correlate'}
NP_READ = set(NP2) | {'std', 'correlate'}
BUILTINS = {'int': {1}, 'min': {2}}
METHODS2 = set(B.METHODS)
RESERVED2 = set(B.RESERVED) | set(BUILTINS) | {FUNC}


def fail(msg, node=None):
    where = ''
    if node is not None:
        where = ' at line %s: %s' % (getattr(node, 'lineno', '?'), ast.unparse(node)[:160])
    raise TranslationError('corefuncs_pscore: ' + msg + where)


def check_module2(tree):
    B.check_module(tree)                       # np, warnings, range, validate (and the other beat functions) bound once
    watched = set(BUILTINS) | {FUNC}
    tops = {}
    for n in tree.body:
        if isinstance(n, (ast.FunctionDef, ast.ClassDef, ast.AsyncFunctionDef)):
            tops.setdefault(n.name, []).append(n)
        elif isinstance(n, (ast.Import, ast.ImportFrom)):
            for a in n.names:
                if a.name == '*':
                    fail('star import (builtins may be shadowed)', n)
                tops.setdefault((a.asname or a.name).split('.')[0], []).append(n)
        elif isinstance(n, (ast.Assign, ast.AugAssign, ast.AnnAssign)):
            for t in (n.targets if isinstance(n, ast.Assign) else [n.target]):
                for m in ast.walk(t):
                    if isinstance(m, ast.Name):
                        tops.setdefault(m.id, []).append(n)
    for b in BUILTINS:
        if b in tops:
            fail('builtin %s is rebound at module level' % b)
    if len(tops.get(FUNC, [])) != 1 or not isinstance(tops[FUNC][0], ast.FunctionDef):
        fail('%s is not bound exactly once, by a top-level def' % FUNC)
    for n in ast.walk(tree):
        if isinstance(n, (ast.Global, ast.Nonlocal)) and watched & set(n.names):
            fail('global / nonlocal declaration of a name with a fixed meaning', n)
        if isinstance(n, ast.Name) and n.id in watched and isinstance(n.ctx, (ast.Store, ast.Del)):
            fail('second binding of the name %s' % n.id, n)
        if isinstance(n, ast.arg) and n.arg in watched:
            fail('a parameter shadows %s' % n.arg, n)


def is_np(f, names):
    return isinstance(f, ast.Attribute) and isinstance(f.value, ast.Name) and f.value.id == 'np' and f.attr in names


class Fn2(Fn):
    def __init__(self, node):
        Fn.__init__(self, node)
        for x in self.params + self.locals:
            if x in RESERVED2:
                fail('%s: the local name %r shadows a name this translator gives a fixed meaning' % (self.name, x), node)

    # ---- aliasing analysis (that of beatfuncs.Fn with the larger table of NumPy functions) ----
    def fresh_expr(self, e, x):
        if isinstance(e, (ast.BinOp, ast.List)):
            return True
        if isinstance(e, ast.Call) and is_np(e.func, NP_FRESH):
            return True
        if isinstance(e, ast.Subscript) and isinstance(e.slice, ast.Slice) and isinstance(e.value, ast.Name) and e.value.id == x:
            return True
        return False

    def analyse(self):
        parent = {}
        for p in ast.walk(self.node):
            for c in ast.iter_child_nodes(p):
                parent[id(c)] = p
        order = {}
        loops = {}

        def number(stmts, chain):
            for s in stmts:
                order[id(s)] = len(order)
                loops[id(s)] = chain
                if isinstance(s, ast.If):
                    number(s.body, chain)
                    number(s.orelse, chain)
                elif isinstance(s, ast.For):
                    number(s.body, chain + (id(s),))
        number(self.body, ())

        def stmt_of(n):
            while id(n) not in order:
                n = parent[id(n)]
            return n
        self.written = {}
        for sub in ast.walk(self.node):
            if isinstance(sub, ast.Assign):
                for t in sub.targets:
                    if isinstance(t, ast.Subscript) and isinstance(t.value, ast.Name):
                        self.written.setdefault(t.value.id, []).append(sub)
            elif isinstance(sub, ast.AugAssign) and isinstance(sub.target, ast.Subscript) and isinstance(sub.target.value, ast.Name):
                self.written.setdefault(sub.target.value.id, []).append(sub)
            elif isinstance(sub, ast.Expr) and isinstance(sub.value, ast.Call) and isinstance(sub.value.func, ast.Attribute) \
                    and sub.value.func.attr == 'append' and isinstance(sub.value.func.value, ast.Name):
                self.written.setdefault(sub.value.func.value.id, []).append(sub)
        for x, writes in self.written.items():
            if x not in self.locals:
                fail('%s: in-place write into %r, which is not a local' % (self.name, x), writes[0])
            for sub in ast.walk(self.node):
                if isinstance(sub, ast.Assign) and any(isinstance(t, ast.Name) and t.id == x for t in sub.targets):
                    if not self.fresh_expr(sub.value, x):
                        fail('%s: %r is written in place but bound to something that may be shared' % (self.name, x), sub)
                if isinstance(sub, ast.AugAssign) and isinstance(sub.target, ast.Name) and sub.target.id == x:
                    fail('%s: augmented assignment to %r, which is written in place' % (self.name, x), sub)
                if isinstance(sub, ast.For) and any(isinstance(m, ast.Name) and m.id == x for m in ast.walk(sub.target)):
                    fail('%s: %r is written in place but bound by a loop' % (self.name, x), sub)
                if not (isinstance(sub, ast.Name) and sub.id == x and isinstance(sub.ctx, ast.Load)):
                    continue
                p = parent[id(sub)]
                ok = False
                if isinstance(p, ast.Subscript) and p.value is sub:
                    if isinstance(p.slice, ast.Slice):
                        gp = parent[id(p)]
                        if isinstance(gp, ast.Assign) and gp.value is p and len(gp.targets) == 1 \
                                and isinstance(gp.targets[0], ast.Name) and gp.targets[0].id == x:
                            ok = True
                        else:
                            s = stmt_of(sub)
                            ok = all(order[id(w)] < order[id(s)] and not (set(loops[id(w)]) & set(loops[id(s)]))
                                     for w in writes)
                            if not ok:
                                fail('%s: a slice (view) of %r is taken where a later write to %r could show through it'
                                     % (self.name, x, x), p)
                    else:
                        ok = True
                elif isinstance(p, (ast.BinOp, ast.Compare, ast.UnaryOp)):
                    ok = True
                elif isinstance(p, ast.Attribute) and p.value is sub and (p.attr in B.ATTRS or p.attr in METHODS2 or p.attr == 'append'):
                    ok = True
                elif isinstance(p, ast.Call) and sub in p.args and is_np(p.func, NP_READ):
                    ok = True
                if not ok:
                    fail('%s: %r is written in place and may become shared here' % (self.name, x), p)

    # ---- expressions ----
    def ex(self, n):
        if isinstance(n, ast.BinOp) and isinstance(n.op, ast.Div) \
                and isinstance(n.left, ast.Constant) and type(n.left.value) is float \
                and isinstance(n.right, ast.Constant) and type(n.right.value) is float:
            a, b = n.left.value, n.right.value
            if b == 0.0:
                fail('division of float literals by zero', n)
            r = a / b                                   # Python's own binary64 division
            return '(ENp "fdiv_const" %s)' % clist(['(EFloat %s)' % cq(a), '(EFloat %s)' % cq(b), '(EFloat %s)' % cq(r)])
        return Fn.ex(self, n)

    def call(self, n):
        f = n.func
        if isinstance(f, ast.Name) and f.id in BUILTINS:
            if f.id in self.params or f.id in self.locals:
                fail('call of a local', n)
            if n.keywords or len(n.args) not in BUILTINS[f.id]:
                fail('%s with unexpected arguments' % f.id, n)
            return '(ENp %s %s)' % (cstr(f.id), clist([self.ex(x) for x in n.args]))
        if isinstance(f, ast.Attribute) and isinstance(f.value, ast.Name) and f.value.id == 'np':
            if f.attr == 'correlate':
                if n.keywords or len(n.args) != 3 or not (isinstance(n.args[2], ast.Constant) and n.args[2].value == 'full'
                                                           and isinstance(n.args[2].value, str)):
                    fail('np.correlate is accepted as np.correlate(a, v, "full") only', n)
                return '(ENp "np.correlate_full" %s)' % clist([self.ex(n.args[0]), self.ex(n.args[1])])
            if f.attr in NP2 and f.attr not in B.NP:
                if n.keywords or len(n.args) not in NP2[f.attr]:
                    fail('np.%s with unexpected arguments' % f.attr, n)
                return '(ENp %s %s)' % (cstr('np.' + f.attr), clist([self.ex(x) for x in n.args]))
        if isinstance(f, ast.Attribute) and f.attr == 'astype':
            a = n.args
            if n.keywords or len(a) != 1 or not (isinstance(a[0], ast.Attribute) and isinstance(a[0].value, ast.Name)
                                                 and a[0].value.id == 'np' and a[0].attr == 'int64'):
                fail('astype is accepted as .astype(np.int64) only', n)
            return '(EMeth %s "astype_int64" [])' % self.ex(f.value)
        return Fn.call(self, n)


def generate():
    tree = module('beat')
    check_module2(tree)
    fn = Fn2(top_func(tree, FUNC))
    t = HEADER
    t += '(* mir_eval.beat.p_score as a program of Model/BeatExp.v (evaluated by Model/PScoreExp.v) *)\n'
    t += 'From Coq Require Import String.\nFrom Coq Require Import List ZArith QArith.\n'
    t += 'From ME Require Import Model.Prelude Model.BeatExp.\nImport ListNotations.\nLocal Open Scope string_scope.\n'
    t += '(* beat.%s *)\nDefinition gen_%s : fdef :=\n  %s.\n' % (FUNC, FUNC, fn.coq())
    t += '(* the function with its signature source; the callees that are not translated here *)\n'
    t += 'Definition pscore_funs : list (string * fdef) :=\n  %s.\n' % clist(['(%s, gen_%s)' % (cstr(FUNC), FUNC)])
    t += 'Definition pscore_prims : list (string * list (string * option exp)) :=\n  %s.\n' % clist(
        ['(%s, %s)' % (cstr(p), prim_sig(top_func(tree, p))) for p in PRIMS])
    return {'CorePScoreGen.v': t}
