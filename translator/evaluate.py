"""Every mir_eval evaluate() -> coq/Gen/Evaluate.v: the body in the statement language of Model/EvalLang.v, the
signatures of the module's functions (positional parameter names, has **kwargs) and the arity of each `return`."""
import ast
import os
from fractions import Fraction
from .common import module, top_func, TranslationError, HEADER, REPO

OUTPUTS = ['Evaluate.v']
MODULES = ['alignment', 'beat', 'chord', 'hierarchy', 'key', 'melody', 'multipitch', 'onset', 'pattern', 'segment',
           'separation', 'tempo', 'transcription', 'transcription_velocity']
KNOWN_PREFIX = ('util', 'transcription', 'collections', 'np')


def cstr(s):
    return '"' + s.replace('"', '""') + '"'


def const(n):
    if isinstance(n, ast.Constant):
        v = n.value
        if v is None:
            return 'CNone'
        if isinstance(v, bool):
            return '(CBool %s)' % ('true' if v else 'false')
        if isinstance(v, (int, float)):
            f = Fraction(repr(v))
            return '(CNum (%d) %d)' % (f.numerator, f.denominator)
        if isinstance(v, str):
            return '(CStr %s)' % cstr(v)
    raise TranslationError('not a constant: ' + ast.dump(n)[:100])


def is_kw_sub(n):
    return isinstance(n, ast.Subscript) and isinstance(n.value, ast.Name) and n.value.id == 'kwargs' \
        and isinstance(n.slice, ast.Constant) and isinstance(n.slice.value, str)


def is_score_sub(n):
    return isinstance(n, ast.Subscript) and isinstance(n.value, ast.Name) and n.value.id == 'scores' \
        and isinstance(n.slice, ast.Constant) and isinstance(n.slice.value, str)


class Ctx:
    def __init__(self, params, funcs):
        self.params = set(params)
        self.funcs = funcs
        self.locals = set()


def lst(items):
    return '[' + '; '.join(items) + ']'


def expr(n, cx):
    if isinstance(n, ast.Name):
        if n.id in cx.locals:
            return '(EVar %s)' % cstr(n.id)
        if n.id in cx.params:
            return '(EInput %s)' % cstr(n.id)
        return '(EGlobal %s)' % cstr(n.id)
    if isinstance(n, ast.Constant):
        return '(EConst %s)' % const(n)
    if is_score_sub(n):
        return '(EScore %s)' % cstr(n.slice.value)
    if isinstance(n, ast.Attribute):
        return '(EAttr %s %s)' % (cstr(n.attr), expr(n.value, cx))
    if isinstance(n, ast.Call):
        f = ast.unparse(n.func)
        if f in ('util.filter_kwargs', 'filter_kwargs'):
            if not n.args:
                raise TranslationError('filter_kwargs without a callee')
            callee = ast.unparse(n.args[0])
            if not isinstance(n.args[0], (ast.Name, ast.Attribute)):
                raise TranslationError('computed callee')
            args = [expr(a, cx) for a in n.args[1:]]
            if any(isinstance(a, ast.Starred) for a in n.args):
                raise TranslationError('starred positional argument')
            star = [k for k in n.keywords if k.arg is None]
            named = [k for k in n.keywords if k.arg is not None]
            if named or len(star) > 1 or any(ast.unparse(k.value) != 'kwargs' for k in star):
                raise TranslationError('unsupported keyword form in filter_kwargs: ' + ast.unparse(n)[:120])
            return '(EFiltered %s %s %s)' % (cstr(callee), lst(args), 'true' if star else 'false')
        if any(k.arg is None for k in n.keywords) or any(isinstance(a, ast.Starred) for a in n.args):
            raise TranslationError('star arguments in a direct call: ' + ast.unparse(n)[:120])
        kws = lst(['(%s, %s)' % (cstr(k.arg), expr(k.value, cx)) for k in n.keywords])
        if isinstance(n.func, ast.Name):
            return '(EDirect %s %s %s)' % (cstr(f), lst([expr(a, cx) for a in n.args]), kws)
        if isinstance(n.func, ast.Attribute):
            base = n.func.value
            if isinstance(base, ast.Name) and base.id in KNOWN_PREFIX and base.id not in cx.locals and base.id not in cx.params:
                return '(EDirect %s %s %s)' % (cstr(f), lst([expr(a, cx) for a in n.args]), kws)
            if n.keywords:
                raise TranslationError('keywords in a method call')
            return '(EMethod %s %s %s)' % (cstr(n.func.attr), expr(base, cx), lst([expr(a, cx) for a in n.args]))
    raise TranslationError('unsupported expression: ' + ast.unparse(n)[:120])


def targets(t, cx):
    if isinstance(t, ast.Tuple):
        out = []
        for e in t.elts:
            if isinstance(e, ast.Tuple):
                raise TranslationError('nested tuple target')
            out += targets(e, cx)
        return out
    if is_score_sub(t):
        return [('TScore', t.slice.value)]
    if isinstance(t, ast.Name):
        return [('TVar', t.id)]
    raise TranslationError('unsupported assignment target: ' + ast.unparse(t)[:80])


def stmts(body, cx, top=True):
    out = []
    for s in body:
        if isinstance(s, ast.Expr) and isinstance(s.value, ast.Constant) and isinstance(s.value.value, str):
            continue                                                    # docstring
        if isinstance(s, ast.Return):
            if s.value is None or ast.unparse(s.value) != 'scores':
                raise TranslationError('return of something other than scores')
            if not top or s is not body[-1]:
                raise TranslationError('return that is not the last top-level statement')
            out.append('SReturn')
            continue
        if isinstance(s, ast.Expr) and isinstance(s.value, ast.Call) and ast.unparse(s.value.func) == 'kwargs.setdefault' \
                and len(s.value.args) == 2 and not s.value.keywords and isinstance(s.value.args[0], ast.Constant):
            out.append('(SSetDefaultKw %s %s)' % (cstr(s.value.args[0].value), const(s.value.args[1])))
            continue
        if isinstance(s, ast.Assign) and len(s.targets) == 1:
            t = s.targets[0]
            if isinstance(t, ast.Name) and t.id == 'scores':
                if ast.unparse(s.value) != 'collections.OrderedDict()':
                    raise TranslationError('scores is not an OrderedDict()')
                continue
            if is_kw_sub(t):
                if isinstance(s.value, ast.Name):
                    out.append('(SRestoreKw %s %s)' % (cstr(t.slice.value), cstr(s.value.id)))
                else:
                    out.append('(SSetKw %s %s)' % (cstr(t.slice.value), const(s.value)))
                continue
            if isinstance(t, ast.Name) and is_kw_sub(s.value):
                out.append('(SSaveKw %s %s)' % (cstr(t.id), cstr(s.value.slice.value)))
                continue
            ts = targets(t, cx)
            e = expr(s.value, cx)
            for kind, name in ts:
                if kind == 'TVar':
                    if name in ('kwargs', 'scores'):
                        raise TranslationError('rebinding %s' % name)
                    cx.locals.add(name)
            out.append('(SBind %s %s)' % (lst(['(%s %s)' % (k, cstr(v)) for k, v in ts]), e))
            continue
        if isinstance(s, ast.If) and not s.orelse:
            c = s.test
            if isinstance(c, ast.Compare) and len(c.ops) == 1 and isinstance(c.ops[0], ast.IsNot) and is_kw_sub(c.left) \
                    and ast.unparse(c.comparators[0]) == 'None':
                out.append('(SIfKwNotNone %s %s)' % (cstr(c.left.slice.value), lst(stmts(s.body, cx, False))))
                continue
            if isinstance(c, ast.Compare) and len(c.ops) == 1 and isinstance(c.ops[0], ast.NotIn) \
                    and ast.unparse(c.comparators[0]) == 'kwargs' and isinstance(c.left, ast.Constant):
                b = s.body
                if len(b) == 1 and isinstance(b[0], ast.Assign) and len(b[0].targets) == 1 and is_kw_sub(b[0].targets[0]) \
                        and b[0].targets[0].slice.value == c.left.value:
                    out.append('(SSetDefaultKw %s %s)' % (cstr(c.left.value), const(b[0].value)))
                    continue
            names = {x.id for x in ast.walk(c) if isinstance(x, ast.Name)}
            if 'kwargs' in names or 'scores' in names or (names & cx.locals):
                raise TranslationError('condition on kwargs/scores/locals outside the fragment: ' + ast.unparse(c)[:100])
            out.append('(SIfOpaque %s %s)' % (cstr(ast.unparse(c)), lst(stmts(s.body, cx, False))))
            continue
        raise TranslationError('unsupported statement: ' + ast.unparse(s)[:120])
    return out


def signatures(tree, prefix=''):
    sig = []
    for n in tree.body:
        if isinstance(n, ast.FunctionDef):
            a = n.args
            if a.kwonlyargs:
                names = [x.arg for x in a.posonlyargs + a.args]          # keyword-only names are not in co_varnames[:co_argcount]
            else:
                names = [x.arg for x in a.posonlyargs + a.args]
            sig.append((prefix + n.name, names, a.kwarg is not None))
    return sig


def own_returns(fn):
    """Return statements of fn itself (not of nested defs / lambdas)."""
    out = []
    stack = list(fn.body)
    while stack:
        n = stack.pop()
        if isinstance(n, (ast.FunctionDef, ast.AsyncFunctionDef, ast.Lambda, ast.ClassDef)):
            continue
        if isinstance(n, ast.Return):
            out.append(n)
        stack.extend(ast.iter_child_nodes(n))
    return sorted(out, key=lambda r: r.lineno)


def arities(tree, funcs):
    rows = []
    for n in tree.body:
        if isinstance(n, ast.FunctionDef):
            ars = []
            for r in own_returns(n):
                v = r.value
                if v is None:
                    ars.append('(AKnown 0)')
                elif isinstance(v, ast.Tuple):
                    if any(isinstance(e, ast.Starred) for e in v.elts):
                        raise TranslationError('starred return in ' + n.name)
                    ars.append('(AKnown %d)' % len(v.elts))
                elif isinstance(v, ast.Call) and isinstance(v.func, ast.Name) and v.func.id in funcs:
                    ars.append('(ADelegate %s)' % cstr(v.func.id))
                else:
                    ars.append('AOpaque')
            rows.append('(%s, %s)' % (cstr(n.name), lst(ars)))
    return rows


def generate():
    t = HEADER + 'From Coq Require Import List String ZArith.\nFrom ME Require Import Model.EvalLang.\nImport ListNotations.\nOpen Scope string_scope.\n'
    names = []
    for m in MODULES:
        tree = module(m)
        fn = top_func(tree, 'evaluate')
        a = fn.args
        if a.vararg or a.kwonlyargs or a.kwarg is None or a.kwarg.arg != 'kwargs':
            raise TranslationError('%s.evaluate: unexpected signature' % m)
        params = [x.arg for x in a.posonlyargs + a.args]
        funcs = {n.name for n in tree.body if isinstance(n, ast.FunctionDef)}
        cx = Ctx(params, funcs)
        prog = stmts(fn.body, cx)
        if not prog or prog[-1] != 'SReturn':
            raise TranslationError('%s.evaluate does not end with return scores' % m)
        sig = signatures(tree)
        for imp in ('util', 'transcription'):
            if imp != m:
                sig += signatures(module(imp), imp + '.')
        t += '\n(* ---- %s.evaluate(%s, **kwargs) ---- *)\n' % (m, ', '.join(params))
        t += 'Definition %s_params : list string := %s.\n' % (m, lst([cstr(p) for p in params]))
        t += 'Definition %s_prog : list stmt :=\n [ %s ].\n' % (m, ';\n   '.join(prog))
        t += 'Definition %s_sigs : sigs :=\n [ %s ].\n' % (m, ';\n   '.join(
            '(%s, (%s, %s))' % (cstr(n), lst([cstr(p) for p in ps]), 'true' if kw else 'false') for n, ps, kw in sig))
        t += 'Definition %s_arities : arities :=\n [ %s ].\n' % (m, ';\n   '.join(arities(tree, funcs)))
        names.append(m)
    t += '\nDefinition all_modules : list string := %s.\n' % lst([cstr(m) for m in names])
    return {'Evaluate.v': t}
