"""The note matchers of mir_eval/transcription.py -> coq/Gen/NoteGen.v
(function bodies as programs of the Python / NumPy sub-language of coq/Model/NoteExp.v).

  match_note_offsets, match_note_onsets, match_notes, average_overlap_ratio

This file maps syntax only (Python ast; mir_eval is never imported; anything outside the fragment raises
TranslationError). What an operator / NumPy function does on each type of value (including where binary64 rounding
happens) is defined by the evaluator of Model/NoteExp.v; Proofs/NoteTie.v proves every generated program equal to the
hand-written model function of Model/Transcription.v for all inputs, with the callees (util.intervals_to_durations,
util._bipartite_match) instantiated by the model.

Accepted fragment
  def          positional-or-keyword parameters, defaults = literal (None / bool / int / float); no decorator,
               *args, **kwargs, annotations
  statements   x = e | g[k] = [] | g[k].append(v) | x.append(e) | if / elif / else |
               for <name> in e: / for <name>, <name> in e: (no else / break / continue) | return e
               (no statement after a return in the same block)
  expressions  parameters and locals, module constants of CONSTS, None / bool / int / float literals, -<int literal>,
               [] and {} (empty only), tuples, one comparison (== != < <= > >=), `is None`, `is not None`, `in`,
               `not in`, + - * /, e[:, <int literal>], e[i], e.reshape(-1, 1), e.items(),
               np.less / np.less_equal as values, calls of a local (holding such a value) with positional arguments,
               np.<f>(...) for f in NP (positional arguments; keywords as listed), sorted(e), zip(*e), len(e),
               min(a, b), max(a, b), util.<callee>(...) for the callees of CALLEES (arguments as written).
What this file decides itself
  * which names are locals (assigned anywhere in the body); that `np` is numpy and `util` is mir_eval.util, that the
    builtins used are not rebound, that module constants are bound exactly once, to an int literal;
  * the aliasing side condition of in-place writes: g[k] = [] / g[k].append(v) / x.append(e) are accepted only on a
    local with exactly one binding, to a fresh {} / [] literal, outside every loop, that is used only by those writes
    and by `k in g` / `k not in g` until the last write; every other use (a callee argument, a return) comes after the
    last write in statement order and outside every loop that contains a write; the appended value of
    g[k].append(v) is a loop variable (an immutable integer).
"""
import ast
from fractions import Fraction
from .common import module, top_func, TranslationError, HEADER

OUTPUTS = ['NoteGen.v']

FUNCS = ['match_note_offsets', 'match_note_onsets', 'match_notes', 'average_overlap_ratio']
CALLEES = ['intervals_to_durations', '_bipartite_match']      # of mir_eval/util.py; opaque, signature read from the source
CONSTS = ['N_DECIMALS']
# NumPy functions: name -> (allowed numbers of positional arguments, allowed keyword names)
NP = {'subtract.outer': ({2}, set()), 'abs': ({1}, set()), 'around': ({1, 2}, {'decimals'}), 'maximum': ({2}, set()),
      'where': ({1}, set()), 'log2': ({1}, set()), 'logical_and': ({2}, set()), 'less': ({2}, set()),
      'less_equal': ({2}, set()), 'mean': ({1}, set())}
UFUNC_VALUES = {'less', 'less_equal'}
BUILTINS = {'sorted': 1, 'len': 1, 'min': 2, 'max': 2}
CMP = {ast.Eq: 'Eq', ast.NotEq: 'Ne', ast.Lt: 'Lt', ast.LtE: 'Le', ast.Gt: 'Gt', ast.GtE: 'Ge'}
BIN = {ast.Add: 'Add', ast.Sub: 'Sub', ast.Mult: 'Mul', ast.Div: 'Div'}
RESERVED = {'np', 'util', 'zip', 'True', 'False', 'None'} | set(BUILTINS) | set(FUNCS) | set(CONSTS)


def fail(msg, node=None):
    where = ''
    if node is not None:
        where = ' at line %s: %s' % (getattr(node, 'lineno', '?'), ast.unparse(node)[:160])
    raise TranslationError('notefuncs: ' + msg + where)


def cstr(s):
    if not (isinstance(s, str) and s.replace('.', '_').replace('*', '_').isidentifier() and s.isascii()):
        fail('unusual name %r' % (s,))
    return '"%s"' % s


def cz(n):
    if isinstance(n, bool) or not isinstance(n, int) or abs(n) >= 2 ** 62:
        fail('unsupported integer literal %r' % (n,))
    return '(%d)%%Z' % n


def cq(x):
    """the exact binary value of a float literal"""
    if not isinstance(x, float) or x != x or x in (float('inf'), float('-inf')):
        fail('unsupported float literal %r' % (x,))
    f = Fraction(x)
    if f.numerator < 0:
        return '((%d)#%d)%%Q' % (f.numerator, f.denominator)
    return '(%d#%d)%%Q' % (f.numerator, f.denominator)


def clist(items):
    return '[' + '; '.join(items) + ']'


def dotted(n):
    """a.b.c -> ['a', 'b', 'c'] for a pure attribute chain on a Name, else None"""
    parts = []
    while isinstance(n, ast.Attribute):
        parts.append(n.attr)
        n = n.value
    if isinstance(n, ast.Name):
        parts.append(n.id)
        return list(reversed(parts))
    return None


# ----------------------------------------------------------------------------- module-level checks
def check_module(tree, modname):
    tops = {}
    for n in tree.body:
        if isinstance(n, (ast.FunctionDef, ast.ClassDef, ast.AsyncFunctionDef)):
            tops.setdefault(n.name, []).append(n)
        elif isinstance(n, (ast.Import, ast.ImportFrom)):
            for a in n.names:
                tops.setdefault((a.asname or a.name).split('.')[0], []).append(n)
        elif isinstance(n, (ast.Assign, ast.AugAssign, ast.AnnAssign)):
            for t in (n.targets if isinstance(n, ast.Assign) else [n.target]):
                for m in ast.walk(t):
                    if isinstance(m, ast.Name):
                        tops.setdefault(m.id, []).append(n)
        elif isinstance(n, ast.Expr) and isinstance(n.value, ast.Constant):
            pass
        else:
            fail('%s: module-level statement other than import / def / assignment (names may be rebound)' % modname, n)
    np_ok = [n for n in tops.get('np', []) if isinstance(n, ast.Import) and len(n.names) == 1
             and n.names[0].name == 'numpy' and n.names[0].asname == 'np']
    if len(tops.get('np', [])) != 1 or len(np_ok) != 1:
        fail('%s: `np` is not bound exactly once by `import numpy as np`' % modname)
    return tops


def check_transcription(tree):
    tops = check_module(tree, 'transcription')
    u = tops.get('util', [])
    if len(u) != 1 or not (isinstance(u[0], ast.ImportFrom) and u[0].level == 1 and u[0].module is None
                           and len(u[0].names) == 1 and u[0].names[0].name == 'util' and u[0].names[0].asname is None):
        fail('`util` is not bound exactly once by `from . import util`')
    for b in list(BUILTINS) + ['zip']:
        if b in tops:
            fail('builtin %s is rebound at module level' % b)
    for f in FUNCS:
        if len(tops.get(f, [])) != 1 or not isinstance(tops[f][0], ast.FunctionDef):
            fail('%s is not bound exactly once, by a top-level def' % f)
    consts = {}
    for c in CONSTS:
        b = tops.get(c, [])
        if len(b) != 1 or not (isinstance(b[0], ast.Assign) and len(b[0].targets) == 1 and isinstance(b[0].targets[0], ast.Name)
                               and isinstance(b[0].value, ast.Constant) and isinstance(b[0].value.value, int)
                               and not isinstance(b[0].value.value, bool)):
            fail('module constant %s is not bound exactly once, to an int literal' % c)
        consts[c] = b[0].value.value
    watched = set(FUNCS) | set(CONSTS) | set(BUILTINS) | {'np', 'util', 'zip'}
    for n in ast.walk(tree):
        if isinstance(n, (ast.Global, ast.Nonlocal)) and watched & set(n.names):
            fail('global / nonlocal declaration of a name with a fixed meaning', n)
        if isinstance(n, ast.Name) and n.id in watched and isinstance(n.ctx, (ast.Store, ast.Del)) \
                and not (n.id in CONSTS and n.col_offset == 0):
            fail('second binding of the name %s' % n.id, n)
        if isinstance(n, ast.Attribute) and isinstance(n.ctx, (ast.Store, ast.Del)) and isinstance(n.value, ast.Name) \
                and n.value.id in watched:
            fail('attribute of %s is rebound' % n.value.id, n)
        if isinstance(n, ast.arg) and n.arg in watched:
            fail('a parameter shadows %s' % n.arg, n)
    return consts


def check_util(tree):
    tops = {}
    for n in tree.body:
        if isinstance(n, ast.FunctionDef):
            tops.setdefault(n.name, []).append(n)
    for f in CALLEES:
        if len(tops.get(f, [])) != 1:
            fail('util.%s is not bound exactly once, by a top-level def' % f)
    for n in ast.walk(tree):
        if isinstance(n, ast.Name) and n.id in CALLEES and isinstance(n.ctx, (ast.Store, ast.Del)):
            fail('util.%s is rebound' % n.id, n)


# ----------------------------------------------------------------------------- one function
class Fn:
    def __init__(self, node):
        self.node = node
        self.name = node.name
        a = node.args
        if node.decorator_list or a.posonlyargs or a.kwonlyargs or a.vararg or a.kwarg or node.returns is not None:
            fail('%s: unexpected signature or decorator' % self.name, node)
        self.params = [x.arg for x in a.args]
        if any(x.annotation is not None for x in a.args):
            fail('%s: annotated parameter' % self.name, node)
        nd = len(a.defaults)
        self.defaults = [None] * (len(self.params) - nd) + list(a.defaults)
        for sub in ast.walk(node):
            if sub is not node and isinstance(sub, (
                    ast.Lambda, ast.FunctionDef, ast.AsyncFunctionDef, ast.ClassDef, ast.Global, ast.Nonlocal, ast.NamedExpr,
                    ast.Await, ast.Yield, ast.YieldFrom, ast.While, ast.Try, ast.With, ast.Break, ast.Continue, ast.Delete,
                    ast.Import, ast.ImportFrom, ast.SetComp, ast.DictComp, ast.ListComp, ast.GeneratorExp,
                    ast.AnnAssign, ast.AugAssign, ast.JoinedStr, ast.Set, ast.IfExp, ast.Raise, ast.Assert, ast.BoolOp)):
                fail('%s: unsupported construct %s' % (self.name, type(sub).__name__), sub)
        self.locals = []                 # in the order of their first store in the text
        stores = [sub for sub in ast.walk(node) if isinstance(sub, ast.Name) and isinstance(sub.ctx, ast.Store)]
        for sub in sorted(stores, key=lambda m: (m.lineno, m.col_offset)):
            if sub.id not in self.params and sub.id not in self.locals:
                self.locals.append(sub.id)
        for x in self.params + self.locals:
            if not (x.isidentifier() and x.isascii()) or x in RESERVED:
                fail('%s: the local name %r shadows a name this translator gives a fixed meaning' % (self.name, x), node)
        if len(set(self.params)) != len(self.params):
            fail('%s: duplicate parameter' % self.name, node)
        self.body = list(node.body)
        if self.body and isinstance(self.body[0], ast.Expr) and isinstance(self.body[0].value, ast.Constant) \
                and isinstance(self.body[0].value.value, str):
            self.body = self.body[1:]
        self.analyse()

    # ---- aliasing analysis of the in-place writes ----
    @staticmethod
    def write_target(s):
        """the local written in place by statement s, or None"""
        if isinstance(s, ast.Assign) and len(s.targets) == 1 and isinstance(s.targets[0], ast.Subscript) \
                and isinstance(s.targets[0].value, ast.Name):
            return s.targets[0].value.id
        if isinstance(s, ast.Expr) and isinstance(s.value, ast.Call) and isinstance(s.value.func, ast.Attribute) \
                and s.value.func.attr == 'append':
            b = s.value.func.value
            if isinstance(b, ast.Name):
                return b.id
            if isinstance(b, ast.Subscript) and isinstance(b.value, ast.Name):
                return b.value.id
        return None

    def analyse(self):
        parent = {}
        for p in ast.walk(self.node):
            for c in ast.iter_child_nodes(p):
                parent[id(c)] = p
        order, loops, loopvars = {}, {}, set()

        def number(stmts, chain):
            for s in stmts:
                order[id(s)] = len(order)
                loops[id(s)] = chain
                if isinstance(s, ast.If):
                    number(s.body, chain)
                    number(s.orelse, chain)
                elif isinstance(s, ast.For):
                    for m in ast.walk(s.target):
                        if isinstance(m, ast.Name):
                            loopvars.add(m.id)
                    number(s.body, chain + (id(s),))
        number(self.body, ())
        self.loopvars = loopvars

        def stmt_of(n):
            while id(n) not in order:
                n = parent[id(n)]
            return n
        self.written = {}
        for sub in ast.walk(self.node):
            if isinstance(sub, (ast.Assign, ast.Expr)):
                x = self.write_target(sub)
                if x is not None:
                    self.written.setdefault(x, []).append(sub)
        for x, writes in self.written.items():
            if x not in self.locals:
                fail('%s: in-place write into %r, which is not a local' % (self.name, x), writes[0])
            binds = [sub for sub in ast.walk(self.node) if isinstance(sub, ast.Name) and sub.id == x and isinstance(sub.ctx, ast.Store)]
            if len(binds) != 1:
                fail('%s: %r is written in place but bound more than once' % (self.name, x), writes[0])
            b = parent[id(binds[0])]
            if not (isinstance(b, ast.Assign) and len(b.targets) == 1 and b.targets[0] is binds[0]
                    and ((isinstance(b.value, ast.Dict) and not b.value.keys) or (isinstance(b.value, ast.List) and not b.value.elts))):
                fail('%s: %r is written in place but not bound to a fresh {} / [] literal' % (self.name, x), b)
            if loops[id(b)] != ():
                fail('%s: the binding of %r is inside a loop' % (self.name, x), b)
            if any(order[id(w)] < order[id(b)] for w in writes):
                fail('%s: %r is written before it is bound' % (self.name, x), b)
            last = max(order[id(w)] for w in writes)
            wloops = set()
            for w in writes:
                wloops |= set(loops[id(w)])
            for sub in ast.walk(self.node):
                if not (isinstance(sub, ast.Name) and sub.id == x and isinstance(sub.ctx, ast.Load)):
                    continue
                s = stmt_of(sub)
                p = parent[id(sub)]
                if s in writes and self.write_target(s) == x and (
                        (isinstance(p, ast.Subscript) and p.value is sub) or (isinstance(p, ast.Attribute) and p.attr == 'append')):
                    continue                                   # the written object itself
                if isinstance(p, ast.Compare) and len(p.ops) == 1 and isinstance(p.ops[0], (ast.In, ast.NotIn)) \
                        and p.comparators[0] is sub:
                    continue                                   # k in g
                if order[id(s)] > last and not (set(loops[id(s)]) & wloops):
                    continue                                   # after the last write
                fail('%s: %r is written in place and may become shared here' % (self.name, x), p)

    # ---- expressions ----
    def is_local(self, x):
        return x in self.params or x in self.locals

    def ex(self, n):
        if isinstance(n, ast.Constant):
            c = n.value
            if c is None:
                return 'ENone'
            if isinstance(c, bool):
                return '(EBool %s)' % ('true' if c else 'false')
            if isinstance(c, int):
                return '(EInt %s)' % cz(c)
            if isinstance(c, float):
                return '(EFloat %s)' % cq(c)
            fail('unsupported literal', n)
        if isinstance(n, ast.Name):
            if not isinstance(n.ctx, ast.Load):
                fail('unexpected store', n)
            if self.is_local(n.id):
                return '(ELoc %s)' % cstr(n.id)
            if n.id in CONSTS:
                return '(EGlob %s)' % cstr(n.id)
            fail('name %r is not a parameter, a local or a known module constant' % n.id, n)
        if isinstance(n, ast.Tuple):
            return '(ETuple %s)' % clist([self.ex(x) for x in n.elts])
        if isinstance(n, ast.List):
            if n.elts:
                fail('non-empty list literal', n)
            return 'EEmptyList'
        if isinstance(n, ast.Dict):
            if n.keys:
                fail('non-empty dict literal', n)
            return 'EEmptyDict'
        if isinstance(n, ast.UnaryOp):
            if isinstance(n.op, ast.USub) and isinstance(n.operand, ast.Constant) and isinstance(n.operand.value, int) \
                    and not isinstance(n.operand.value, bool):
                return '(EInt %s)' % cz(-n.operand.value)
            fail('unsupported unary operator', n)
        if isinstance(n, ast.Compare):
            if len(n.ops) != 1:
                fail('chained comparison', n)
            op, a, b = n.ops[0], n.left, n.comparators[0]
            if isinstance(op, (ast.Is, ast.IsNot)):
                if not (isinstance(b, ast.Constant) and b.value is None):
                    fail('`is` is accepted against None only', n)
                return '(EIsNone %s %s)' % ('true' if isinstance(op, ast.IsNot) else 'false', self.ex(a))
            if isinstance(op, (ast.In, ast.NotIn)):
                return '(EIn %s %s %s)' % ('true' if isinstance(op, ast.NotIn) else 'false', self.ex(a), self.ex(b))
            if type(op) in CMP:
                return '(ECmp %s %s %s)' % (CMP[type(op)], self.ex(a), self.ex(b))
            fail('unsupported comparison', n)
        if isinstance(n, ast.BinOp):
            if type(n.op) not in BIN:
                fail('unsupported binary operator', n)
            return '(EBin %s %s %s)' % (BIN[type(n.op)], self.ex(n.left), self.ex(n.right))
        if isinstance(n, ast.Subscript):
            if not isinstance(n.ctx, ast.Load):
                fail('unexpected store', n)
            s = n.slice
            if isinstance(s, ast.Tuple):
                if len(s.elts) == 2 and isinstance(s.elts[0], ast.Slice) and s.elts[0].lower is None and s.elts[0].upper is None \
                        and s.elts[0].step is None and isinstance(s.elts[1], ast.Constant) and isinstance(s.elts[1].value, int) \
                        and not isinstance(s.elts[1].value, bool):
                    return '(EColumn %s %s)' % (self.ex(n.value), cz(s.elts[1].value))
                fail('multi-dimensional index other than e[:, <int literal>]', n)
            if isinstance(s, ast.Slice):
                fail('slice', n)
            return '(EIndex %s %s)' % (self.ex(n.value), self.ex(s))
        if isinstance(n, ast.Attribute):
            d = dotted(n)
            if d is not None and d[0] == 'np' and len(d) == 2 and d[1] in UFUNC_VALUES:
                return '(EFun %s)' % cstr('np.' + d[1])
            fail('unsupported attribute', n)
        if isinstance(n, ast.Call):
            return self.call(n)
        fail('expression outside the accepted fragment', n)

    def args_of(self, n):
        for a in n.args:
            if isinstance(a, ast.Starred):
                fail('starred argument', n)
        return clist([self.ex(x) for x in n.args])

    def kws_of(self, n, allowed=None):
        kws = []
        for k in n.keywords:
            if k.arg is None:
                fail('**kwargs in a call', n)
            if allowed is not None and k.arg not in allowed:
                fail('unexpected keyword %s' % k.arg, n)
            kws.append('(%s, %s)' % (cstr(k.arg), self.ex(k.value)))
        return clist(kws)

    def call(self, n):
        f = n.func
        if isinstance(f, ast.Name):
            if self.is_local(f.id):
                if n.keywords:
                    fail('call of a local with keywords', n)
                return '(ECallLoc %s %s)' % (cstr(f.id), self.args_of(n))
            if f.id == 'zip':
                if n.keywords or len(n.args) != 1 or not isinstance(n.args[0], ast.Starred):
                    fail('zip is accepted as zip(*e) only', n)
                return '(EBuiltin "zip*" %s)' % clist([self.ex(n.args[0].value)])
            if f.id in BUILTINS:
                if n.keywords or len(n.args) != BUILTINS[f.id]:
                    fail('%s with unexpected arguments' % f.id, n)
                return '(EBuiltin %s %s)' % (cstr(f.id), self.args_of(n))
            fail('call of an unknown function %r' % f.id, n)
        if isinstance(f, ast.Attribute):
            d = dotted(f)
            if d is not None and d[0] == 'np':
                name = '.'.join(d[1:])
                if name in NP:
                    nargs, kwnames = NP[name]
                    if len(n.args) not in nargs:
                        fail('np.%s with unexpected arguments' % name, n)
                    return '(ENp %s %s %s)' % (cstr('np.' + name), self.args_of(n), self.kws_of(n, kwnames))
                fail('unsupported NumPy function np.%s' % name, n)
            if d is not None and d[0] == 'util':
                if len(d) == 2 and d[1] in CALLEES:
                    return '(ECall %s %s %s)' % (cstr('util.' + d[1]), self.args_of(n), self.kws_of(n))
                fail('unsupported util function', n)
            if d is not None and not self.is_local(d[0]):
                fail('call through an unknown name %r' % d[0], n)
            if f.attr == 'reshape':
                if n.keywords:
                    fail('reshape with keywords', n)
                return '(EMeth %s "reshape" %s)' % (self.ex(f.value), self.args_of(n))
            if f.attr == 'items':
                if n.keywords or n.args:
                    fail('items with arguments', n)
                return '(EMeth %s "items" [])' % self.ex(f.value)
            fail('unsupported method %s' % f.attr, n)
        fail('unsupported call', n)

    # ---- statements ----
    def block(self, stmts, ind):
        out = []
        for i, s in enumerate(stmts):
            out.extend(self.stmt(s, ind))
            if isinstance(s, ast.Return) and i + 1 < len(stmts):
                fail('statement after return', stmts[i + 1])
        return out

    def fmt_block(self, items, ind):
        pad = '\n' + '  ' * (ind + 1)
        if not items:
            return '[]'
        return '[' + pad + (';' + pad).join(items) + ']'

    def stmt(self, s, ind):
        if isinstance(s, ast.Expr):
            v = s.value
            if isinstance(v, ast.Call) and isinstance(v.func, ast.Attribute) and v.func.attr == 'append':
                if v.keywords or len(v.args) != 1 or isinstance(v.args[0], ast.Starred):
                    fail('append with unexpected arguments', s)
                x = v.func.value
                if isinstance(x, ast.Name):
                    if x.id not in self.written:
                        fail('internal: unanalysed write', s)
                    return ['SAppend %s %s' % (cstr(x.id), self.ex(v.args[0]))]
                if isinstance(x, ast.Subscript) and isinstance(x.value, ast.Name) and not isinstance(x.slice, (ast.Slice, ast.Tuple)):
                    if x.value.id not in self.written:
                        fail('internal: unanalysed write', s)
                    a = v.args[0]
                    if not (isinstance(a, ast.Name) and a.id in self.loopvars and a.id not in self.written):
                        fail('g[k].append(v) is accepted for a loop variable v only', s)
                    return ['SDictAppend %s %s %s' % (cstr(x.value.id), self.ex(x.slice), self.ex(a))]
            fail('expression statement outside the accepted fragment', s)
        if isinstance(s, ast.Assign):
            if len(s.targets) != 1:
                fail('chained assignment', s)
            t = s.targets[0]
            if isinstance(t, ast.Name):
                return ['SAssign %s %s' % (cstr(t.id), self.ex(s.value))]
            if isinstance(t, ast.Subscript) and isinstance(t.value, ast.Name):
                if isinstance(t.slice, (ast.Slice, ast.Tuple)):
                    fail('slice / multi-dimensional assignment', s)
                if t.value.id not in self.written:
                    fail('internal: unanalysed write', s)
                if not (isinstance(s.value, ast.List) and not s.value.elts):
                    fail('g[k] = e is accepted for e = [] only', s)
                return ['SDictSetEmpty %s %s' % (cstr(t.value.id), self.ex(t.slice))]
            fail('unsupported assignment target', s)
        if isinstance(s, ast.If):
            a = self.block(s.body, ind + 1)
            b = self.block(s.orelse, ind + 1)
            return ['SIf %s %s %s' % (self.ex(s.test), self.fmt_block(a, ind + 1), self.fmt_block(b, ind + 1))]
        if isinstance(s, ast.For):
            if s.orelse:
                fail('for ... else', s)
            if isinstance(s.target, ast.Name):
                targets = [s.target.id]
            elif isinstance(s.target, ast.Tuple) and len(s.target.elts) >= 2 and all(isinstance(e, ast.Name) for e in s.target.elts):
                targets = [e.id for e in s.target.elts]
                if len(set(targets)) != len(targets):
                    fail('repeated loop variable', s)
            else:
                fail('unsupported loop target', s)
            body = self.block(s.body, ind + 1)
            return ['SFor %s %s %s' % (clist([cstr(x) for x in targets]), self.ex(s.iter), self.fmt_block(body, ind + 1))]
        if isinstance(s, ast.Return):
            if s.value is None:
                fail('return without a value', s)
            return ['SReturn %s' % self.ex(s.value)]
        fail('statement outside the accepted fragment', s)

    def coq_params(self):
        ps = []
        for p, d in zip(self.params, self.defaults):
            if d is None:
                ps.append('(%s, None)' % cstr(p))
            else:
                if not (isinstance(d, ast.Constant) and (d.value is None or isinstance(d.value, (bool, int, float)))):
                    fail('%s: default of %s is not a literal' % (self.name, p), d)
                ps.append('(%s, Some %s)' % (cstr(p), self.ex(d)))
        return clist(ps)

    def coq(self):
        body = self.block(self.body, 1)
        return ('{| f_params := %s;\n     f_locals := %s;\n     f_body := %s |}'
                % (self.coq_params(), clist([cstr(x) for x in self.locals]), self.fmt_block(body, 2)))


def prim_sig(node):
    a = node.args
    if node.decorator_list or a.posonlyargs or a.kwonlyargs or a.vararg or a.kwarg or a.defaults:
        fail('%s: unexpected signature or decorator' % node.name, node)
    return clist(['(%s, None)' % cstr(x.arg) for x in a.args])


def generate():
    tree = module('transcription')
    consts = check_transcription(tree)
    utree = module('util')
    check_util(utree)
    fns = {f: Fn(top_func(tree, f)) for f in FUNCS}
    t = HEADER
    t += '(* the note matchers of mir_eval/transcription.py as programs of Model/NoteExp.v *)\n'
    t += 'From Coq Require Import String.\nFrom Coq Require Import List ZArith QArith.\n'
    t += 'From ME Require Import Model.Prelude Model.NoteExp.\nImport ListNotations.\nLocal Open Scope string_scope.\n'
    for f in FUNCS:
        t += '(* transcription.%s *)\nDefinition gen_%s : fdef :=\n  %s.\n' % (f, f, fns[f].coq())
    t += '(* module constants *)\n'
    t += 'Definition note_globals : list (string * nv) :=\n  %s.\n' % clist(['(%s, NInt %s)' % (cstr(c), cz(consts[c])) for c in CONSTS])
    t += '(* every translated function; the callees that are not translated here, with the signatures found in util.py *)\n'
    t += 'Definition note_funs : list (string * fdef) :=\n  %s.\n' % clist(['(%s, gen_%s)' % (cstr(f), f) for f in FUNCS])
    t += 'Definition note_prims : list (string * list (string * option exp)) :=\n  %s.\n' % clist(
        ['(%s, %s)' % (cstr('util.' + p), prim_sig(top_func(utree, p))) for p in CALLEES])
    return {'NoteGen.v': t}
