"""Lookup tables of chord.py and key.py -> coq/Gen/ChordTables.v, coq/Gen/KeyTable.v."""
import ast
from .common import module, top_assign, top_func, lit, codes, TranslationError, HEADER

OUTPUTS = ['ChordTables.v', 'KeyTable.v']


def zipped_dict(fn, keys_name, vals_name):
    """def f(): keys = [...]; semitones = [...]; return dict([(c, s) for c, s in zip(keys, semitones)])"""
    ks = vs = None
    for s in fn.body:
        if isinstance(s, ast.Assign) and len(s.targets) == 1 and isinstance(s.targets[0], ast.Name):
            if s.targets[0].id == keys_name:
                ks = lit(s.value)
            elif s.targets[0].id == vals_name:
                vs = lit(s.value)
            else:
                raise TranslationError('unexpected assignment in %s' % fn.name)
        elif isinstance(s, ast.Return):
            v = s.value
            ok = (isinstance(v, ast.Call) and ast.unparse(v.func) == 'dict' and len(v.args) == 1 and not v.keywords
                  and isinstance(v.args[0], ast.ListComp) and len(v.args[0].generators) == 1)
            if ok:
                g = v.args[0].generators[0]
                ok = (not g.ifs and ast.unparse(g.iter) == 'zip(%s, %s)' % (keys_name, vals_name)
                      and isinstance(g.target, ast.Tuple) and len(g.target.elts) == 2
                      and all(isinstance(e, ast.Name) for e in g.target.elts)
                      and ast.unparse(v.args[0].elt) == '(%s, %s)' % (g.target.elts[0].id, g.target.elts[1].id))
            if not ok:
                raise TranslationError('unexpected return in %s: %s' % (fn.name, ast.unparse(v)))
        elif isinstance(s, ast.Expr) and isinstance(s.value, ast.Constant):
            continue
        else:
            raise TranslationError('unexpected statement in %s' % fn.name)
    if ks is None or vs is None or len(ks) != len(vs) or len(set(ks)) != len(ks):
        raise TranslationError('%s: malformed key/value lists' % fn.name)
    return list(zip(ks, vs))


def generate():
    ch = module('chord')
    if ast.unparse(top_assign(ch, 'PITCH_CLASSES')) != '_pitch_classes()':
        raise TranslationError('PITCH_CLASSES is not _pitch_classes()')
    pitch = zipped_dict(top_func(ch, '_pitch_classes'), 'pitch_classes', 'semitones')
    # SCALE_DEGREES = _scale_degrees() is assigned after scale_degree_to_semitone's definition
    if ast.unparse(top_assign(ch, 'SCALE_DEGREES')) != '_scale_degrees()':
        raise TranslationError('SCALE_DEGREES is not _scale_degrees()')
    degs = zipped_dict(top_func(ch, '_scale_degrees'), 'degrees', 'semitones')
    quals = lit(top_assign(ch, 'QUALITIES'))
    redux = lit(top_assign(ch, 'EXTENDED_QUALITY_REDUX'))
    blen = lit(top_assign(ch, 'BITMAP_LENGTH'))
    no_chord = lit(top_assign(ch, 'NO_CHORD'))
    x_chord = lit(top_assign(ch, 'X_CHORD'))
    ne = ast.unparse(top_assign(ch, 'NO_CHORD_ENCODED'))
    xe = ast.unparse(top_assign(ch, 'X_CHORD_ENCODED'))
    if ne != '(-1, np.array([0] * BITMAP_LENGTH), -1)' or xe != '(-1, np.array([-1] * BITMAP_LENGTH), -1)':
        raise TranslationError('sentinel encodings changed: %s / %s' % (ne, xe))
    for p, s in pitch:
        if not (isinstance(p, str) and len(p) == 1 and isinstance(s, int) and s >= 0):
            raise TranslationError('bad PITCH_CLASSES row %r' % ((p, s),))
    for d, s in degs:
        if not (isinstance(d, str) and isinstance(s, int) and s >= 0):
            raise TranslationError('bad SCALE_DEGREES row')
    for q, bm in quals:
        if not (isinstance(q, str) and isinstance(bm, list) and all(isinstance(x, int) and not isinstance(x, bool) for x in bm)):
            raise TranslationError('bad QUALITIES row %r' % (q,))
    if len(set(q for q, _ in quals)) != len(quals):
        raise TranslationError('duplicate QUALITIES key (later one wins in Python)')
    rrows = []
    for q, v in redux:
        if not (isinstance(q, str) and isinstance(v, tuple) and len(v) == 2 and isinstance(v[0], str)
                and isinstance(v[1], tuple) and v[1][0] == 'set' and all(isinstance(x, str) for x in v[1][1])):
            raise TranslationError('bad EXTENDED_QUALITY_REDUX row %r' % (q,))
        rrows.append((q, v[0], sorted(set(v[1][1]))))
    z = lambda n: '(%d)' % n if n < 0 else str(n)
    t = HEADER + 'From Coq Require Import List ZArith.\nImport ListNotations.\n'
    t += 'Definition BITMAP_LENGTH : nat := %d.\n' % blen
    t += 'Definition NO_CHORD : list nat := %s.\nDefinition X_CHORD : list nat := %s.\n' % (codes(no_chord), codes(x_chord))
    t += 'Definition PITCH_CLASSES : list (nat * nat) := [%s].\n' % ';'.join('(%d,%d)' % (ord(p), s) for p, s in pitch)
    t += 'Definition SCALE_DEGREES : list (list nat * nat) := [%s].\n' % ';'.join('(%s,%d)' % (codes(d), s) for d, s in degs)
    t += 'Definition QUALITIES : list (list nat * list Z) := [\n%s].\n' % ';\n'.join(
        ' (%s,[%s]%%Z)' % (codes(q), ';'.join(z(x) for x in bm)) for q, bm in quals)
    t += 'Definition EXTENDED_QUALITY_REDUX : list (list nat * (list nat * list (list nat))) := [\n%s].\n' % ';\n'.join(
        ' (%s,(%s,[%s]))' % (codes(q), codes(b), ';'.join(codes(x) for x in add)) for q, b, add in rrows)
    # key.py
    ky = module('key')
    k2s = lit(top_assign(ky, 'KEY_TO_SEMITONE'))
    rows = []
    for k, v in k2s:
        if not isinstance(k, str) or not (v is None or (isinstance(v, int) and not isinstance(v, bool))):
            raise TranslationError('bad KEY_TO_SEMITONE row')
        rows.append('(%s,%s)' % (codes(k), 'None' if v is None else '(Some %s%%Z)' % z(v)))
    if len(set(k for k, _ in k2s)) != len(k2s):
        raise TranslationError('duplicate KEY_TO_SEMITONE key')
    modes = None
    for n in ast.walk(top_func(ky, 'validate_key')):
        if isinstance(n, ast.Compare) and len(n.ops) == 1 and isinstance(n.ops[0], ast.NotIn) and ast.unparse(n.left) == 'mode':
            modes = lit(n.comparators[0])
    if not modes or not all(isinstance(m, str) for m in modes):
        raise TranslationError('cannot find the mode list in validate_key')
    kt = HEADER + 'From Coq Require Import List ZArith.\nImport ListNotations.\n'
    kt += 'Definition KEY_TO_SEMITONE : list (list nat * option Z) := [%s].\n' % ';'.join(rows)
    kt += 'Definition KEY_MODES : list (list nat) := [%s].\n' % ';'.join(codes(m) for m in modes)
    return {'ChordTables.v': t, 'KeyTable.v': kt}
