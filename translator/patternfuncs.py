"""The pattern-discovery metrics of mir_eval/pattern.py -> coq/Gen/PatternGen.v
(function bodies as programs of the Python / NumPy sub-language of coq/Model/PatExp.v).

  _n_onset_midi, _occurrence_intersection, _compute_score_matrix, standard_FPR, establishment_FPR, occurrence_FPR,
  three_layer_FPR (with its three nested helpers), first_n_three_layer_P, first_n_target_proportion_R

This file maps syntax only (Python ast; mir_eval is never imported; anything outside the fragment raises
TranslationError). What an operator / builtin / NumPy function does on each type of value is defined by the evaluator
of Model/PatExp.v; Proofs/PatternTie.v proves every generated program equal to the hand-written model function of
Model/Pattern.v for all inputs, with the callees instantiated by the model's functions.

Accepted fragment
  def          positional-or-keyword parameters, defaults = literal (None / bool / int / float / str); no decorator,
               *args, **kwargs. Nested defs (no further nesting) only as top-level statements of a function body, each name
               bound by exactly one def and by nothing else; a nested function may mention its siblings, the module's
               functions and its own parameters / locals, nothing of the enclosing scope; no statement in front of a nested
               def mentions a nested function. The def statements are then dropped and every mention of a nested function
               is the constant function value `Outer.name`.
  statements   x = e | x1, ..., xk = e | x op= e (op: + - * / % &) | x[i] = e | <callee>(...) |
               if / elif / else | for <name or tuple of names> in e: (no else) | break | continue (inside a for) |
               return [e] | raise <Exception>(<literal message> [% <name>]) | pass
               (no statement after a return / raise / break / continue in the same block)
  expressions  parameters and locals, None / bool / int / float / str literals, -<number literal>, tuples, lists,
               comparisons (== != < <= > >= in `not in`; a chain a op b op c only with b a name, a literal or len(<name>)),
               not / and / or, + - * / % &, e[i] with i an expression, `:`, `:hi` or a tuple of those,
               [body for x in e (if c)* for y in e' ...] (name targets),
               len float min tuple list set enumerate range with positional arguments,
               np.zeros np.empty np.asarray np.abs np.diff np.max np.mean np.vstack np.ix_ (positional and keyword
               arguments as written; the type names int / float / bool as keyword values),
               calls of the functions of FUNCS, of CALLEES (opaque, arguments as written: positional and keyword), of a
               nested function, and of a local that holds a function.
What this file decides itself
  * which names are locals (Python's rule: assigned anywhere in the body, nested scopes excluded); that every function
    translated or called has exactly one top-level def and is not rebound, that `np` is numpy, `util` is mir_eval.util
    (whose f_measure has exactly one top-level def; its signature is read from util.py in the same run), that the
    builtins used are not shadowed, and that nothing is assigned to an attribute of `np` / `util`;
  * the aliasing side condition of in-place writes: x[i] = e is accepted only if every binding of x creates a fresh
    object (a literal, a constructor, an arithmetic / comparison result, a NumPy function that returns a new array,
    a call of a callee all of whose returns are fresh). x may reach another name y (y = x[...]) only if every in-place
    write of x comes textually before that statement, the statement is not inside a loop that writes x, and y itself is
    never written in place and reaches nothing else; x must not reach a container or a callee argument at all. Under
    that condition rebinding the local (and copying at y = x[...]) is an exact reading;
  * a for loop's iterable must not mention a name written in its body;
  * the message of a raise: a literal is dropped; <literal> % <name> is emitted as an expression statement in front of
    the raise (it can raise itself).
"""
import ast
import re
from fractions import Fraction
from .common import module, top_func, codes, TranslationError, HEADER

OUTPUTS = ['PatternGen.v']

FUNCS = ['_n_onset_midi', '_occurrence_intersection', '_compute_score_matrix', 'standard_FPR', 'establishment_FPR',
         'occurrence_FPR', 'three_layer_FPR', 'first_n_three_layer_P', 'first_n_target_proportion_R']
CALLEES = ['validate']                            # functions of the module that are called but tied elsewhere
UTIL_CALLEES = ['f_measure']                      # util.<name>
BUILTINS = {'len': (1, 1), 'float': (1, 1), 'min': (2, 2), 'tuple': (1, 1), 'list': (1, 1), 'set': (0, 1),
            'enumerate': (1, 1), 'range': (1, 1)}      # name: (min, max) positional arguments
TYPES = {'int', 'float', 'bool'}
NPFUNCS = {'np.zeros', 'np.empty', 'np.asarray', 'np.abs', 'np.diff', 'np.max', 'np.mean', 'np.vstack', 'np.ix_'}
NP_FRESH = NPFUNCS - {'np.asarray'}               # np.asarray may return its argument
COPYING = set(BUILTINS) | NP_FRESH                # results never alias their arguments' containers
MUTATING = {'update', 'pop', 'popitem', 'clear', 'setdefault', 'append', 'extend', 'insert', 'remove', 'add', 'discard',
            'sort', 'reverse', 'fill', 'put', 'resize', 'itemset', 'difference_update', 'intersection_update',
            'symmetric_difference_update', '__setitem__', '__delitem__', '__iadd__', '__ior__'}
EXN = {'ValueError': 'ValueError', 'TypeError': 'TypeError', 'KeyError': 'KeyError', 'IndexError': 'IndexError',
       'ZeroDivisionError': 'ZeroDivisionError'}
CMP = {ast.Eq: 'Eq', ast.NotEq: 'Ne', ast.Lt: 'Lt', ast.LtE: 'Le', ast.Gt: 'Gt', ast.GtE: 'Ge'}
BIN = {ast.Add: 'Add', ast.Sub: 'Sub', ast.Mult: 'Mul', ast.Div: 'Div', ast.Mod: 'Mod', ast.BitAnd: 'BitAnd'}
RESERVED = set(BUILTINS) | TYPES | {'np', 'util', 'warnings', 'collections', 'True', 'False', 'None', 'super',
                                    'Exception'} | set(EXN)
NAME_RE = re.compile(r'^[A-Za-z_][A-Za-z0-9_]*(\.[A-Za-z_][A-Za-z0-9_]*)*$')
SCOPES = (ast.FunctionDef, ast.AsyncFunctionDef, ast.Lambda, ast.ClassDef)


def fail(msg, node=None):
    where = ''
    if node is not None:
        where = ' at line %s: %s' % (getattr(node, 'lineno', '?'), ast.unparse(node)[:160])
    raise TranslationError('patternfuncs: ' + msg + where)


def cstr(s):
    if not (isinstance(s, str) and s.isascii() and NAME_RE.match(s)):
        fail('unusual name %r' % (s,))
    return '"%s"' % s


def cz(n):
    if isinstance(n, bool) or not isinstance(n, int) or abs(n) >= 2 ** 62:
        fail('unsupported integer literal %r' % (n,))
    return '(%d)%%Z' % n


def cq(x):
    """the exact binary value of a float literal"""
    if not isinstance(x, float) or x != x or x in (float('inf'), float('-inf')):
        fail('unsupported float literal %r' % (x,))
    f = Fraction(x)
    if abs(f.numerator) >= 2 ** 200 or f.denominator >= 2 ** 200:
        fail('float literal %r needs too many digits' % (x,))
    return '((%d)#%d)%%Q' % (f.numerator, f.denominator)


def clist(items):
    return '[' + '; '.join(items) + ']'


def walk_shallow(node):
    """ast.walk that does not enter nested scopes (nested defs, lambdas, classes)."""
    todo = list(ast.iter_child_nodes(node))
    while todo:
        n = todo.pop()
        yield n
        if not isinstance(n, SCOPES):
            todo.extend(ast.iter_child_nodes(n))


def base_name(n):
    while isinstance(n, (ast.Subscript, ast.Attribute)):
        n = n.value
    return n.id if isinstance(n, ast.Name) else None


# ----------------------------------------------------------------------------- module-level checks
def check_module(tree):
    """Everything the reading of names relies on. Fail-closed."""
    tops = {}
    for n in tree.body:
        if isinstance(n, (ast.FunctionDef, ast.ClassDef, ast.AsyncFunctionDef)):
            tops.setdefault(n.name, []).append(n)
        elif isinstance(n, (ast.Import, ast.ImportFrom)):
            for a in n.names:
                tops.setdefault((a.asname or a.name).split('.')[0], []).append(n)
        elif isinstance(n, (ast.Assign, ast.AugAssign, ast.AnnAssign)):
            for t in (n.targets if isinstance(n, ast.Assign) else [n.target]):
                for m in ast.walk(t):
                    if isinstance(m, ast.Name):
                        tops.setdefault(m.id, []).append(n)
        elif isinstance(n, ast.Expr) and isinstance(n.value, ast.Constant):
            pass
        else:
            fail('module-level statement other than def / import / assignment / docstring (names may be rebound)', n)
    np_ok = [n for n in tops.get('np', []) if isinstance(n, ast.Import) and len(n.names) == 1
             and n.names[0].name == 'numpy' and n.names[0].asname == 'np']
    if len(tops.get('np', [])) != 1 or len(np_ok) != 1:
        fail('`np` is not bound exactly once by `import numpy as np`')
    ut = tops.get('util', [])
    if len(ut) != 1 or not (isinstance(ut[0], ast.ImportFrom) and ut[0].level == 1 and ut[0].module is None
                            and len(ut[0].names) == 1 and ut[0].names[0].name == 'util' and ut[0].names[0].asname is None):
        fail('`util` is not bound exactly once by `from . import util`')
    for b in list(BUILTINS) + sorted(TYPES) + ['super', 'Exception'] + sorted(EXN):
        if b in tops:
            fail('builtin %r is rebound at module level' % b)
    for f in FUNCS + CALLEES:
        if len(tops.get(f, [])) != 1 or not isinstance(tops[f][0], ast.FunctionDef) or tops[f][0].decorator_list:
            fail('%s is not bound exactly once, by an undecorated top-level def' % f)
    watched = set(FUNCS) | set(CALLEES) | {'np', 'util'}
    for n in ast.walk(tree):
        if isinstance(n, (ast.Global, ast.Nonlocal)):
            fail('global / nonlocal declaration', n)
        if isinstance(n, ast.Name) and n.id in watched and isinstance(n.ctx, (ast.Store, ast.Del)):
            fail('second binding of the name %s' % n.id, n)
        if isinstance(n, (ast.FunctionDef, ast.ClassDef, ast.AsyncFunctionDef)) and n.name in watched \
                and not any(n is t for t in tops.get(n.name, [])):
            fail('second definition of the name %s' % n.name, n)
        if isinstance(n, (ast.arg,)) and n.arg in watched:
            fail('parameter named like a watched name %s' % n.arg, n)
        if isinstance(n, (ast.Subscript, ast.Attribute)) and isinstance(n.ctx, (ast.Store, ast.Del)) and base_name(n) in watched:
            fail('write into %s' % base_name(n), n)
        if isinstance(n, ast.AugAssign) and base_name(n.target) in watched:
            fail('augmented assignment to %s' % base_name(n.target), n)
        if isinstance(n, (ast.Import, ast.ImportFrom)) and not any(n is t for t in tree.body):
            fail('import inside a function', n)


def check_util(tree):
    for f in UTIL_CALLEES:
        found = [n for n in tree.body if isinstance(n, ast.FunctionDef) and n.name == f]
        if len(found) != 1 or found[0].decorator_list:
            fail('util.%s is not bound exactly once, by an undecorated top-level def' % f)
        for n in ast.walk(tree):
            if isinstance(n, ast.Name) and n.id == f and isinstance(n.ctx, (ast.Store, ast.Del)):
                fail('util.%s is rebound' % f, n)
            if isinstance(n, (ast.Global, ast.Nonlocal)) and f in n.names:
                fail('util.%s is declared global' % f, n)


def signature(node, who):
    a = node.args
    if node.decorator_list or a.posonlyargs or a.kwonlyargs or a.vararg or a.kwarg or node.returns is not None:
        fail('%s: unexpected signature or decorator' % who, node)
    params = [x.arg for x in a.args]
    if any(x.annotation is not None for x in a.args):
        fail('%s: annotated parameter' % who, node)
    if len(set(params)) != len(params):
        fail('%s: duplicate parameter' % who, node)
    defaults = [None] * (len(params) - len(a.defaults)) + list(a.defaults)
    return params, defaults


def const_exp(d, who):
    """default values: literals"""
    if isinstance(d, ast.Constant):
        c = d.value
        if c is None:
            return 'ENone'
        if isinstance(c, bool):
            return '(EBool %s)' % ('true' if c else 'false')
        if isinstance(c, int):
            return '(EInt %s)' % cz(c)
        if isinstance(c, float):
            return '(EFloat %s)' % cq(c)
        if isinstance(c, str):
            return '(EStr %s%%nat)' % codes(c)
    fail('%s: default that is not a literal' % who, d)


def params_coq(params, defaults, who):
    ps = []
    for p, d in zip(params, defaults):
        if not (p.isidentifier() and p.isascii()):
            fail('%s: unusual parameter name' % who)
        ps.append('(%s, %s)' % (cstr(p), 'None' if d is None else 'Some %s' % const_exp(d, who)))
    return clist(ps)


# ----------------------------------------------------------------------------- one function
class Fn:
    def __init__(self, node, qual, fresh_callees, siblings=None):
        """qual: the name under which the function is called; siblings: {local name: qualified name} of the nested
        functions visible in this body (for an outer function: its own nested defs)."""
        self.node = node
        self.name = qual
        self.fresh_callees = fresh_callees
        self.params, self.defaults = signature(node, qual)
        self.nested = [s for s in node.body if isinstance(s, ast.FunctionDef)]
        if siblings is None:
            self.funs = {s.name: qual + '.' + s.name for s in self.nested}
            if len(self.funs) != len(self.nested):
                fail('%s: a nested function is defined twice' % qual, node)
        else:
            if self.nested:
                fail('%s: nesting deeper than one level' % qual, node)
            self.funs = dict(siblings)
        for sub in walk_shallow(node):
            if isinstance(sub, SCOPES) and not (sub in self.nested):
                fail('%s: nested scope that is not a top-level def of the body' % qual, sub)
            if isinstance(sub, (ast.Global, ast.Nonlocal, ast.NamedExpr, ast.Await, ast.Yield, ast.YieldFrom, ast.While,
                                ast.Try, ast.With, ast.Delete, ast.Import, ast.ImportFrom, ast.Starred, ast.SetComp,
                                ast.DictComp, ast.GeneratorExp, ast.AnnAssign, ast.JoinedStr, ast.Set, ast.Dict,
                                ast.IfExp, ast.Assert, ast.Match if hasattr(ast, 'Match') else ast.While)):
                fail('%s: unsupported construct %s' % (qual, type(sub).__name__), sub)
        for s in self.nested:
            for sub in ast.walk(s):
                if sub is not s and isinstance(sub, SCOPES):
                    fail('%s: nesting deeper than one level' % qual, sub)
                if isinstance(sub, (ast.Global, ast.Nonlocal)):
                    fail('%s: global / nonlocal in a nested function' % qual, sub)
        # locals: every name stored in this scope outside comprehensions (comprehension targets live in their own scope)
        comp_targets = set()
        for sub in walk_shallow(node):
            if isinstance(sub, ast.ListComp):
                for g in sub.generators:
                    for m in ast.walk(g.target):
                        comp_targets.add(id(m))
        self.locals = []
        for sub in walk_shallow(node):
            if isinstance(sub, ast.Name) and isinstance(sub.ctx, ast.Store) and id(sub) not in comp_targets:
                if sub.id not in self.params and sub.id not in self.locals:
                    self.locals.append(sub.id)
        for x in self.params + self.locals:
            if not (x.isidentifier() and x.isascii()) or x in RESERVED or x in FUNCS or x in CALLEES or x in self.funs:
                fail('%s: the local name %r shadows a name this translator gives a fixed meaning' % (qual, x), node)
        body = list(node.body)
        if body and isinstance(body[0], ast.Expr) and isinstance(body[0].value, ast.Constant) \
                and isinstance(body[0].value.value, str):
            body = body[1:]
        # nested defs: no statement in front of one mentions a nested function
        last_def = max([i for i, s in enumerate(body) if isinstance(s, ast.FunctionDef)], default=-1)
        for s in body[:last_def + 1]:
            if isinstance(s, ast.FunctionDef):
                continue
            for sub in ast.walk(s):
                if isinstance(sub, ast.Name) and sub.id in self.funs:
                    fail('%s: a nested function is mentioned before all nested defs have run' % qual, s)
        self.body = [s for s in body if not isinstance(s, ast.FunctionDef)]
        self.analyse()

    # ---- aliasing analysis (flow-insensitive, with one positional refinement for views taken after the last write) ----
    def expr_fresh(self, e):
        """e evaluates to an object no other reference can reach (or to an immutable value)."""
        if isinstance(e, ast.Constant):
            return True
        if isinstance(e, (ast.BinOp, ast.Compare, ast.UnaryOp)):
            return True
        if isinstance(e, (ast.List, ast.Tuple, ast.ListComp)):
            return True                      # a new container (its elements may be shared; nested writes are not accepted)
        if isinstance(e, ast.BoolOp):
            return all(self.expr_fresh(v) for v in e.values)
        if isinstance(e, ast.Name):
            return e.id in self.fresh_names
        if isinstance(e, ast.Call):
            f = e.func
            full = ast.unparse(f)
            if isinstance(f, ast.Name):
                if f.id in BUILTINS:
                    return True
                if f.id in FUNCS:
                    return f.id in self.fresh_callees
                return False
            if full in NP_FRESH:
                return True
            if full == 'util.f_measure':
                return True                  # a float
            return False
        return False

    def escaping(self, e):
        """names whose object may be reachable from the value of e or be retained by what e calls."""
        if isinstance(e, ast.Name):
            return {e.id}
        if isinstance(e, (ast.Tuple, ast.List)):
            return set().union(*[self.escaping(x) for x in e.elts]) if e.elts else set()
        if isinstance(e, ast.BoolOp):
            return set().union(*[self.escaping(x) for x in e.values])
        if isinstance(e, ast.Subscript):
            return self.escaping(e.value)
        if isinstance(e, ast.ListComp):
            return self.escaping(e.elt) | set().union(*[self.escaping(g.iter) for g in e.generators])
        if isinstance(e, ast.Call):
            if ast.unparse(e.func) in COPYING:
                return set()
            args = list(e.args) + [k.value for k in e.keywords]
            return set().union(*[self.escaping(x) for x in args]) if args else set()
        return set()           # constants, arithmetic, comparisons, not: new or immutable objects

    def analyse(self):
        node = self.node
        bindings = {x: [] for x in self.locals}
        for x in self.params:
            bindings[x] = [None]          # the caller's object
        self.written = set()          # names that are the target of an in-place write
        write_pos = {}                # name -> positions (line, col) of its in-place writes
        alias_sites = []              # (expression whose value is stored / passed on, target name or None, statement)
        loops = [s for s in walk_shallow(node) if isinstance(s, ast.For)]
        for sub in walk_shallow(node):
            if isinstance(sub, ast.Assign):
                t = sub.targets[0] if len(sub.targets) == 1 else None
                if isinstance(t, ast.Name):
                    bindings[t.id].append(sub.value)
                    alias_sites.append((sub.value, t.id, sub))
                elif isinstance(t, ast.Tuple):
                    for m in t.elts:
                        if isinstance(m, ast.Name):
                            bindings[m.id].append(None)
                    alias_sites.append((sub.value, None, sub))
                elif isinstance(t, ast.Subscript) and isinstance(t.value, ast.Name):
                    self.written.add(t.value.id)
                    write_pos.setdefault(t.value.id, []).append((sub.lineno, sub.col_offset, sub))
                    alias_sites.append((sub.value, None, sub))
            elif isinstance(sub, ast.AugAssign) and isinstance(sub.target, ast.Name):
                pass                  # keeps the object (mutable: refused by the evaluator unless fresh) or rebinds
            elif isinstance(sub, ast.For):
                for m in ast.walk(sub.target):
                    if isinstance(m, ast.Name):
                        bindings[m.id].append(None)
            elif isinstance(sub, ast.Call):
                f = sub.func
                if ast.unparse(f) not in COPYING:
                    for x in list(sub.args) + [k.value for k in sub.keywords]:
                        alias_sites.append((x, None, sub))
        self.fresh_names = {x for x in self.locals if bindings[x]}
        changed = True
        while changed:
            changed = False
            for x in sorted(self.fresh_names):
                if not all(b is not None and self.expr_fresh(b) for b in bindings[x]):
                    self.fresh_names.discard(x)
                    changed = True
        # a written name must not leak; a view y = x[...] taken after the last write of x is tolerated (see the docstring)
        self.leaked = set()
        views = []                    # (x, y, statement)
        for e, target, st in alias_sites:
            for x in self.escaping(e):
                if x == target and self.expr_fresh(e) and not isinstance(e, ast.Name):
                    continue
                if target is not None and isinstance(e, ast.Subscript) and isinstance(st, ast.Assign):
                    views.append((x, target, st))
                else:
                    self.leaked.add(x)
        for x, y, st in views:
            ok = y not in self.written
            for (ln, col, w) in write_pos.get(x, []):
                if (ln, col) >= (st.lineno, st.col_offset):
                    ok = False
                for lp in loops:
                    inside = {id(m) for m in ast.walk(lp)}
                    if id(w) in inside and id(st) in inside:
                        ok = False
            if not ok:
                self.leaked.add(x)
        for x, y, st in views:        # the view itself must go nowhere else
            if y in self.leaked or any(v[0] == y for v in views):
                self.leaked.add(x)
        self.returns_fresh = True
        for sub in walk_shallow(node):
            if isinstance(sub, ast.Return) and sub.value is not None:
                v = sub.value
                ok = self.expr_fresh(v) and not (isinstance(v, ast.Name) and v.id in self.leaked)
                if not ok:
                    self.returns_fresh = False

    def unshared(self, x):
        return x in self.fresh_names and x not in self.leaked

    # ---- expressions ----
    def is_local(self, x, comp):
        return x in comp or x in self.params or x in self.locals

    def ex(self, n, comp=()):
        if isinstance(n, ast.Constant):
            c = n.value
            if c is None:
                return 'ENone'
            if isinstance(c, bool):
                return '(EBool %s)' % ('true' if c else 'false')
            if isinstance(c, int):
                return '(EInt %s)' % cz(c)
            if isinstance(c, float):
                return '(EFloat %s)' % cq(c)
            if isinstance(c, str):
                return '(EStr %s%%nat)' % codes(c)
            fail('unsupported literal', n)
        if isinstance(n, ast.Name):
            if not isinstance(n.ctx, ast.Load):
                fail('unexpected store', n)
            if self.is_local(n.id, comp):
                return '(ELoc %s)' % cstr(n.id)
            if n.id in self.funs:
                return '(EFun %s)' % cstr(self.funs[n.id])
            if n.id in FUNCS or n.id in CALLEES:
                return '(EFun %s)' % cstr(n.id)
            if n.id in TYPES:
                return '(ETy %s)' % cstr(n.id)
            fail('name %r is not a parameter, a local or a known function' % n.id, n)
        if isinstance(n, ast.Tuple):
            return '(ETuple %s)' % clist([self.ex(x, comp) for x in n.elts])
        if isinstance(n, ast.List):
            return '(EList %s)' % clist([self.ex(x, comp) for x in n.elts])
        if isinstance(n, ast.UnaryOp):
            if isinstance(n.op, ast.Not):
                return '(ENot %s)' % self.ex(n.operand, comp)
            if isinstance(n.op, ast.USub) and isinstance(n.operand, ast.Constant) and not isinstance(n.operand.value, bool):
                if isinstance(n.operand.value, int):
                    return '(EInt %s)' % cz(-n.operand.value)
                if isinstance(n.operand.value, float):
                    return '(EFloat %s)' % cq(-n.operand.value)
            fail('unsupported unary operator', n)
        if isinstance(n, ast.BoolOp):
            comb = 'EAnd' if isinstance(n.op, ast.And) else 'EOr'
            parts = [self.ex(x, comp) for x in n.values]
            out = parts[-1]
            for p in reversed(parts[:-1]):
                out = '(%s %s %s)' % (comb, p, out)
            return out
        if isinstance(n, ast.Compare):
            operands = [n.left] + list(n.comparators)
            for mid in operands[1:-1]:
                # evaluated once by Python, twice by the conjunction below: must be free of effects and cheap to see so
                pure = isinstance(mid, (ast.Name, ast.Constant)) or (
                    isinstance(mid, ast.Call) and isinstance(mid.func, ast.Name) and mid.func.id == 'len'
                    and len(mid.args) == 1 and not mid.keywords and isinstance(mid.args[0], ast.Name))
                if not pure:
                    fail('chained comparison with a middle operand that is not a name, a literal or len(<name>)', n)
            parts = []
            for op, a, b in zip(n.ops, operands[:-1], operands[1:]):
                if isinstance(op, ast.In):
                    parts.append('(EIn %s %s)' % (self.ex(a, comp), self.ex(b, comp)))
                elif isinstance(op, ast.NotIn):
                    parts.append('(ENot (EIn %s %s))' % (self.ex(a, comp), self.ex(b, comp)))
                elif type(op) in CMP:
                    parts.append('(ECmp %s %s %s)' % (CMP[type(op)], self.ex(a, comp), self.ex(b, comp)))
                else:
                    fail('unsupported comparison', n)
            out = parts[-1]
            for p in reversed(parts[:-1]):
                out = '(EAnd %s %s)' % (p, out)
            return out
        if isinstance(n, ast.BinOp):
            if type(n.op) not in BIN:
                fail('unsupported binary operator', n)
            return '(EBin %s %s %s)' % (BIN[type(n.op)], self.ex(n.left, comp), self.ex(n.right, comp))
        if isinstance(n, ast.Subscript):
            if not isinstance(n.ctx, ast.Load):
                fail('unexpected store', n)
            return '(EIndex %s %s)' % (self.ex(n.value, comp), self.index(n.slice, comp))
        if isinstance(n, ast.ListComp):
            gens = []
            inner = comp
            for g in n.generators:
                if g.is_async or not isinstance(g.target, ast.Name):
                    fail('comprehension with a tuple target', n)
                x = g.target.id
                if not (x.isidentifier() and x.isascii()) or x in RESERVED or x in FUNCS or x in CALLEES or x in self.funs:
                    fail('unusual comprehension variable', n)
                it = self.ex(g.iter, inner)
                inner = inner + (x,)
                conds = [self.ex(c, inner) for c in g.ifs]
                gens.append('(%s, %s, %s)' % (cstr(x), it, clist(conds)))
            return '(EComp %s %s)' % (self.ex(n.elt, inner), clist(gens))
        if isinstance(n, ast.Call):
            return self.call(n, comp)
        fail('expression outside the accepted fragment', n)

    def index(self, s, comp, top=True):
        if isinstance(s, ast.Slice):
            if s.step is not None:
                fail('slice with a step', s)
            if s.lower is None and s.upper is None:
                return 'ESliceAll'
            lo = 'None' if s.lower is None else '(Some %s)' % self.ex(s.lower, comp)
            hi = 'None' if s.upper is None else '(Some %s)' % self.ex(s.upper, comp)
            return '(ESlice %s %s)' % (lo, hi)
        if top and isinstance(s, ast.Tuple) and any(isinstance(x, ast.Slice) for x in s.elts):
            return '(ETuple %s)' % clist([self.index(x, comp, top=False) for x in s.elts])
        return self.ex(s, comp)

    def kwargs(self, n, comp):
        kws = []
        for k in n.keywords:
            if k.arg is None:
                fail('**kwargs in a call', n)
            kws.append('(%s, %s)' % (cstr(k.arg), self.ex(k.value, comp)))
        return clist(kws)

    def call(self, n, comp):
        f = n.func
        pos = [self.ex(x, comp) for x in n.args]
        if isinstance(f, ast.Name):
            if self.is_local(f.id, comp):
                return '(ECallV %s %s %s)' % (cstr(f.id), clist(pos), self.kwargs(n, comp))
            if f.id in self.funs:
                return '(ECall %s %s %s)' % (cstr(self.funs[f.id]), clist(pos), self.kwargs(n, comp))
            if f.id in BUILTINS:
                lo, hi = BUILTINS[f.id]
                if n.keywords or not lo <= len(pos) <= hi:
                    fail('builtin %s with unexpected arguments' % f.id, n)
                return '(EBuiltin %s %s [])' % (cstr(f.id), clist(pos))
            if f.id in FUNCS or f.id in CALLEES:
                return '(ECall %s %s %s)' % (cstr(f.id), clist(pos), self.kwargs(n, comp))
            fail('call of an unknown function %r' % f.id, n)
        if isinstance(f, ast.Attribute):
            full = ast.unparse(f)
            if full in NPFUNCS:
                return '(EBuiltin %s %s %s)' % (cstr(full), clist(pos), self.kwargs(n, comp))
            if isinstance(f.value, ast.Name) and f.value.id == 'util' and f.attr in UTIL_CALLEES \
                    and not self.is_local('util', comp):
                return '(ECall %s %s %s)' % (cstr(full), clist(pos), self.kwargs(n, comp))
            fail('unsupported library or method call %s' % full, n)
        fail('unsupported call', n)

    # ---- statements ----
    def written_in(self, stmts):
        out = set()
        for s in stmts:
            for sub in ast.walk(s):
                if isinstance(sub, ast.Name) and isinstance(sub.ctx, ast.Store):
                    out.add(sub.id)
                if isinstance(sub, ast.Subscript) and isinstance(sub.ctx, ast.Store) and isinstance(sub.value, ast.Name):
                    out.add(sub.value.id)
                if isinstance(sub, ast.Call) and isinstance(sub.func, ast.Attribute) and sub.func.attr in MUTATING \
                        and isinstance(sub.func.value, ast.Name):
                    out.add(sub.func.value.id)
        return out

    def message(self, args, node):
        """statements that evaluate what the construction of the exception evaluates and that can fail."""
        pre = []
        if len(args) > 1:
            fail('exception with more than one argument', node)
        for a in args:
            if isinstance(a, ast.Constant) and isinstance(a.value, str):
                continue
            if isinstance(a, ast.BinOp) and isinstance(a.op, ast.Mod) and isinstance(a.left, ast.Constant) \
                    and isinstance(a.left.value, str) and isinstance(a.right, ast.Name):
                pre.append('SExpr %s' % self.ex(a))
                continue
            fail('unsupported exception message', a)
        return pre

    def block(self, stmts, ind, loop):
        out = []
        for i, s in enumerate(stmts):
            out.extend(self.stmt(s, ind, loop))
            if isinstance(s, (ast.Return, ast.Raise, ast.Break, ast.Continue)) and i + 1 < len(stmts):
                fail('statement after return / raise / break / continue', stmts[i + 1])
        return out

    def fmt_block(self, items, ind):
        pad = '\n' + '  ' * (ind + 1)
        if not items:
            return '[]'
        return '[' + pad + (';' + pad).join(items) + ']'

    def stmt(self, s, ind, loop):
        if isinstance(s, ast.Pass):
            return ['SPass']
        if isinstance(s, ast.Break):
            if not loop:
                fail('break outside a loop', s)
            return ['SBreak']
        if isinstance(s, ast.Continue):
            if not loop:
                fail('continue outside a loop', s)
            return ['SContinue']
        if isinstance(s, ast.Expr):
            v = s.value
            if isinstance(v, ast.Call) and isinstance(v.func, ast.Name) and (v.func.id in FUNCS or v.func.id in CALLEES
                                                                           or v.func.id in self.funs) \
                    and not self.is_local(v.func.id, ()):
                return ['SExpr %s' % self.ex(v)]
            fail('expression statement that is not a call of a known function', s)
        if isinstance(s, ast.Assign):
            if len(s.targets) != 1:
                fail('chained assignment', s)
            t = s.targets[0]
            if isinstance(t, ast.Name):
                return ['SAssign %s %s' % (cstr(t.id), self.ex(s.value))]
            if isinstance(t, ast.Tuple):
                if len(t.elts) < 2 or not all(isinstance(m, ast.Name) for m in t.elts) \
                        or len({m.id for m in t.elts}) != len(t.elts):
                    fail('unpacking target must be two or more distinct names', s)
                return ['SUnpack %s %s' % (clist([cstr(m.id) for m in t.elts]), self.ex(s.value))]
            if isinstance(t, ast.Subscript) and isinstance(t.value, ast.Name):
                x = t.value.id
                if x not in self.locals:
                    fail('item assignment into something that is not a local', s)
                if not self.unshared(x):
                    fail('in-place write into %r, which may be shared (a binding that is not a fresh object, or the '
                         'name flows elsewhere)' % x, s)
                if isinstance(t.slice, ast.Slice) or (isinstance(t.slice, ast.Tuple)
                                                      and any(isinstance(m, ast.Slice) for m in t.slice.elts)):
                    fail('slice assignment', s)
                return ['SSetItem %s %s %s' % (cstr(x), self.ex(t.slice), self.ex(s.value))]
            fail('unsupported assignment target', s)
        if isinstance(s, ast.AugAssign):
            if not isinstance(s.target, ast.Name) or type(s.op) not in BIN:
                fail('unsupported augmented assignment', s)
            x = s.target.id
            return ['SAug %s %s %s %s' % ('true' if self.unshared(x) else 'false', cstr(x), BIN[type(s.op)], self.ex(s.value))]
        if isinstance(s, ast.If):
            a = self.block(s.body, ind + 1, loop)
            b = self.block(s.orelse, ind + 1, loop)
            return ['SIf %s %s %s' % (self.ex(s.test), self.fmt_block(a, ind + 1), self.fmt_block(b, ind + 1))]
        if isinstance(s, ast.For):
            if s.orelse:
                fail('for ... else', s)
            if isinstance(s.target, ast.Name):
                xs = [s.target.id]
            elif isinstance(s.target, ast.Tuple) and len(s.target.elts) >= 2 and all(isinstance(m, ast.Name) for m in s.target.elts) \
                    and len({m.id for m in s.target.elts}) == len(s.target.elts):
                xs = [m.id for m in s.target.elts]
            else:
                fail('unsupported loop target', s)
            used = {m.id for m in ast.walk(s.iter) if isinstance(m, ast.Name)}
            clash = used & (self.written_in(s.body) | set(xs))
            if clash:
                fail('the iterable of a loop mentions %s, which the loop writes' % sorted(clash), s)
            body = self.block(s.body, ind + 1, True)
            return ['SFor %s %s %s' % (clist([cstr(x) for x in xs]), self.ex(s.iter), self.fmt_block(body, ind + 1))]
        if isinstance(s, ast.Return):
            return ['SReturn %s' % ('ENone' if s.value is None else self.ex(s.value))]
        if isinstance(s, ast.Raise):
            e = s.exc
            if s.cause is not None or e is None:
                fail('unsupported raise', s)
            if isinstance(e, ast.Name):
                name, args, kws = e.id, [], []
            elif isinstance(e, ast.Call) and isinstance(e.func, ast.Name):
                name, args, kws = e.func.id, e.args, e.keywords
            else:
                fail('unsupported raise', s)
            if name not in EXN or kws or name in self.params + self.locals:
                fail('unsupported exception', s)
            return self.message(args, s) + ['SRaise %s' % EXN[name]]
        fail('statement outside the accepted fragment', s)

    def coq(self):
        body = self.block(self.body, 1, False)
        return ('{| f_params := %s;\n     f_locals := %s;\n     f_body := %s |}'
                % (params_coq(self.params, self.defaults, self.name), clist([cstr(x) for x in self.locals]),
                   self.fmt_block(body, 2)))


def ident(q):
    return 'gen_' + q.replace('.', '__')


def generate():
    tree = module('pattern')
    check_module(tree)
    utree = module('util')
    check_util(utree)
    nodes = {f: top_func(tree, f) for f in FUNCS}
    order = {f: i for i, f in enumerate(FUNCS)}
    for f in FUNCS:
        for sub in ast.walk(nodes[f]):
            if isinstance(sub, ast.Name) and sub.id in FUNCS and isinstance(sub.ctx, ast.Load) and order[sub.id] >= order[f]:
                fail('%s mentions %s: the functions are not in call order (or recursive)' % (f, sub.id), sub)
    fresh = set()
    fns = []                              # (qualified name, Fn), callees first
    for f in FUNCS:
        outer = Fn(nodes[f], f, frozenset(fresh))
        for s in outer.nested:
            fns.append((outer.funs[s.name], Fn(s, outer.funs[s.name], frozenset(fresh), siblings=outer.funs)))
        fns.append((f, outer))
        if outer.returns_fresh:
            fresh.add(f)
    prims = []
    for c in CALLEES:
        ps, ds = signature(top_func(tree, c), c)
        prims.append((c, params_coq(ps, ds, c)))
    for c in UTIL_CALLEES:
        ps, ds = signature(top_func(utree, c), 'util.' + c)
        prims.append(('util.' + c, params_coq(ps, ds, 'util.' + c)))
    t = HEADER
    t += '(* the pattern-discovery metrics of mir_eval/pattern.py as programs of Model/PatExp.v *)\n'
    t += 'From Coq Require Import String.\nFrom Coq Require Import List ZArith QArith.\n'
    t += 'From ME Require Import Model.Prelude Model.PatExp.\nImport ListNotations.\nLocal Open Scope string_scope.\n'
    for q, fn in fns:
        t += '(* pattern.%s *)\nDefinition %s : fdef :=\n  %s.\n' % (q, ident(q), fn.coq())
    t += '(* every function with its signature source; the callees that are tied elsewhere *)\n'
    t += 'Definition pattern_funs : list (string * fdef) :=\n  %s.\n' % clist(['(%s, %s)' % (cstr(q), ident(q)) for q, _ in fns])
    t += 'Definition pattern_prims : list (string * list (string * option exp)) :=\n  %s.\n' % clist(
        ['(%s, %s)' % (cstr(k), v) for k, v in prims])
    t += '(* functions all of whose returns are fresh objects (what the in-place writes of their callers rely on) *)\n'
    t += 'Definition pattern_returns_fresh : list string := %s.\n' % clist([cstr(f) for f in FUNCS if f in fresh])
    return {'PatternGen.v': t}
