"""Small scalar functions -> coq/Gen/ScalarFuncs.v (shallow terms over the combinators of Model/PyScalar.v).

  util.f_measure(precision, recall, beta)            -> gen_f_measure
  key.weighted_score, the ladder after its 3 opening statements
      validate(reference_key, estimated_key)
      reference_key, reference_mode = split_key_string(reference_key)
      estimated_key, estimated_mode = split_key_string(estimated_key)   -> gen_key_ladder

Accepted fragment (anything else raises TranslationError; Python ast only, mir_eval is never imported):
  statements   name = <expr> | if <expr>: <block> [else: <block>] | return [<expr>] | raise <BuiltinError>(...)
               (no statement after a return in the same block; falling off the end returns None)
  expressions  parameter / local names, literals (int, float, str, None, True, False), unary - on a numeric
               literal, not, + - * / %, ** with a literal exponent >= 0, and / or, comparisons
               == != < <= > >= , `is None`, `is not None`, chained comparisons whose inner operands are names or
               literals, conditional expressions.
This file maps syntax only; what the operators do on each type of value is defined in Model/PyScalar.v, and
Proofs/ScalarFuncsTie.v proves the results equal to the hand-written models.
"""
import ast
from .common import module, top_func, codes, cq_Q, TranslationError, HEADER

OUTPUTS = ['ScalarFuncs.v']
EXN = {'ValueError', 'TypeError', 'KeyError', 'IndexError', 'ZeroDivisionError'}
CMP = {ast.Eq: 'PEq', ast.NotEq: 'PNe', ast.Lt: 'PLt', ast.LtE: 'PLe', ast.Gt: 'PGt', ast.GtE: 'PGe'}
BIN = {ast.Add: 'pe_add', ast.Sub: 'pe_sub', ast.Mult: 'pe_mul', ast.Div: 'pe_div', ast.Mod: 'pe_mod'}


def fail(msg, node=None):
    where = ''
    if node is not None:
        where = ' at line %s: %s' % (getattr(node, 'lineno', '?'), ast.unparse(node)[:160])
    raise TranslationError('scalarfuncs: ' + msg + where)


def v(name):
    return 'v_' + name


def const(c, node):
    if c is None:
        return '(Ok PNone)'
    if isinstance(c, bool):
        return '(Ok (PBool %s))' % ('true' if c else 'false')
    if isinstance(c, int) and abs(c) < 2 ** 62:
        return '(Ok (PInt (%d)%%Z))' % c
    if isinstance(c, float) and c == c and abs(c) < 1e300:
        return '(Ok (PFloat %s%%Q))' % cq_Q(c)
    if isinstance(c, str):
        return '(Ok (PStr %s%%nat))' % codes(c)
    fail('unsupported literal', node)


def is_atom(n):
    return isinstance(n, (ast.Name, ast.Constant))


def ex(n, scope):
    if isinstance(n, ast.Constant):
        return const(n.value, n)
    if isinstance(n, ast.Name):
        if n.id not in scope:
            fail('name %r is neither a parameter nor a local' % n.id, n)
        return '(Ok %s)' % v(n.id)
    if isinstance(n, ast.UnaryOp):
        if isinstance(n.op, ast.USub) and isinstance(n.operand, ast.Constant) and isinstance(n.operand.value, (int, float)) \
                and not isinstance(n.operand.value, bool):
            return const(-n.operand.value, n)
        if isinstance(n.op, ast.Not):
            return '(pe_not %s)' % ex(n.operand, scope)
        fail('unsupported unary operator', n)
    if isinstance(n, ast.BinOp):
        if type(n.op) in BIN:
            return '(%s %s %s)' % (BIN[type(n.op)], ex(n.left, scope), ex(n.right, scope))
        if isinstance(n.op, ast.Pow):
            e = n.right
            if not (isinstance(e, ast.Constant) and isinstance(e.value, int) and not isinstance(e.value, bool) and 0 <= e.value <= 64):
                fail('** needs a literal exponent in 0..64', n)
            return '(pe_pow %d%%nat %s)' % (e.value, ex(n.left, scope))
        fail('unsupported binary operator', n)
    if isinstance(n, ast.BoolOp):
        comb = 'pe_and' if isinstance(n.op, ast.And) else 'pe_or'
        parts = [ex(x, scope) for x in n.values]
        out = parts[-1]
        for p in reversed(parts[:-1]):
            out = '(%s %s %s)' % (comb, p, out)
        return out
    if isinstance(n, ast.Compare):
        operands = [n.left] + list(n.comparators)
        if len(n.ops) > 1 and not all(is_atom(x) for x in operands[1:-1]):
            fail('inner operands of a chained comparison must be names or literals', n)
        links = []
        for op, a, b in zip(n.ops, operands, operands[1:]):
            if isinstance(op, (ast.Is, ast.IsNot)):
                if not (isinstance(b, ast.Constant) and b.value is None):
                    fail('`is` is accepted against None only', n)
                links.append('(%s %s)' % ('pe_is_none' if isinstance(op, ast.Is) else 'pe_is_not_none', ex(a, scope)))
            elif type(op) in CMP:
                links.append('(pe_cmp %s %s %s)' % (CMP[type(op)], ex(a, scope), ex(b, scope)))
            else:
                fail('unsupported comparison operator', n)
        out = links[-1]
        for p in reversed(links[:-1]):
            out = '(pe_and %s %s)' % (p, out)
        return out
    if isinstance(n, ast.IfExp):
        return '(py_if %s %s %s)' % (ex(n.test, scope), ex(n.body, scope), ex(n.orelse, scope))
    fail('expression outside the accepted fragment', n)


def returns(stmts):
    if not stmts:
        return False
    s = stmts[-1]
    if isinstance(s, (ast.Return, ast.Raise)):
        return True
    if isinstance(s, ast.If):
        return returns(s.body) and returns(s.orelse)
    return False


def block(stmts, scope, ind):
    pad = '\n' + '  ' * ind
    if not stmts:
        return '(Ok PNone)'
    s, rest = stmts[0], stmts[1:]
    if isinstance(s, ast.Return):
        if rest:
            fail('statement after return', rest[0])
        return '(Ok PNone)' if s.value is None else ex(s.value, scope)
    if isinstance(s, ast.Raise):
        if rest:
            fail('statement after raise', rest[0])
        e = s.exc
        name = e.func.id if isinstance(e, ast.Call) and isinstance(e.func, ast.Name) else (e.id if isinstance(e, ast.Name) else None)
        if s.cause is not None or name not in EXN:
            fail('unsupported raise', s)
        return '(Raise %s)' % name
    if isinstance(s, ast.Assign):
        if len(s.targets) != 1 or not isinstance(s.targets[0], ast.Name):
            fail('only  name = <expr>  is accepted', s)
        x = s.targets[0].id
        if not (x.isidentifier() and x.isascii()):
            fail('unusual name', s)
        return '(py_let %s (fun %s =>%s%s))' % (ex(s.value, scope), v(x), pad, block(rest, scope | {x}, ind))
    if isinstance(s, ast.If):
        then = s.body if returns(s.body) else s.body + rest
        other = s.orelse if returns(s.orelse) else s.orelse + rest
        return '(py_if %s%s  %s%s%s)' % (ex(s.test, scope), pad, block(then, scope, ind + 1), pad, block(other, scope, ind))
    fail('statement outside the accepted fragment', s)


def function(fn, prefix, params):
    a = fn.args
    if fn.decorator_list or a.posonlyargs or a.kwonlyargs or a.vararg or a.kwarg:
        fail('%s: unexpected signature or decorator' % fn.name)
    for sub in ast.walk(fn):
        if isinstance(sub, (ast.Lambda, ast.FunctionDef, ast.Global, ast.Nonlocal, ast.NamedExpr, ast.Await, ast.Yield,
                            ast.For, ast.While, ast.Try, ast.With)) and sub is not fn:
            fail('%s: unsupported construct' % fn.name, sub)
    body = list(fn.body)
    if body and isinstance(body[0], ast.Expr) and isinstance(body[0].value, ast.Constant) and isinstance(body[0].value.value, str):
        body = body[1:]
    if [ast.unparse(s) for s in body[:len(prefix)]] != prefix:
        fail('%s: the opening statements are not the expected ones' % fn.name, body[0] if body else None)
    if params is None:
        params = [x.arg for x in a.args]
    if len(set(params)) != len(params) or not all(p.isidentifier() and p.isascii() for p in params):
        fail('%s: unusual parameter names' % fn.name)
    text = block(body[len(prefix):], set(params), 1)
    return params, text


SPEC = [
    # module, function, Coq name, opening statements not translated, parameters of the translated part
    ('util', 'f_measure', 'gen_f_measure', [], None),
    ('key', 'weighted_score', 'gen_key_ladder',
     ['validate(reference_key, estimated_key)',
      'reference_key, reference_mode = split_key_string(reference_key)',
      'estimated_key, estimated_mode = split_key_string(estimated_key)'],
     ['reference_key', 'reference_mode', 'estimated_key', 'estimated_mode']),
]


def generate():
    t = HEADER
    t += '(* scalar functions as shallow terms over Model/PyScalar.v; Python name x is the binder v_x *)\n'
    t += 'From Coq Require Import List ZArith QArith.\nFrom ME Require Import Model.Prelude Model.PyScalar.\nImport ListNotations.\n'
    for mod, py, coq, prefix, params in SPEC:
        fn = top_func(module(mod), py)
        ps, text = function(fn, prefix, params)
        t += '(* %s.%s%s *)\n' % (mod, py, ' (after its %d opening statements)' % len(prefix) if prefix else '')
        t += 'Definition %s (%s : pyv) : res pyv :=\n  %s.\n' % (coq, ' '.join(v(p) for p in ps), text)
    return {'ScalarFuncs.v': t}
