"""The event matcher of mir_eval/util.py -> coq/Gen/MatchGen.v
(function bodies as programs of the heap-based Python sub-language of coq/Model/HeapPy.v).

  _outer_distance_mod_n, _fast_hit_windows, match_events, _bipartite_match (with its nested closure `recurse`)

This file maps syntax only (Python ast; mir_eval is never imported; anything outside the fragment raises
TranslationError).  Lists and dicts are heap objects in Model/HeapPy.v, so aliasing, in-place mutation, identity
tests and closures need NO side condition here: the evaluator reads them as CPython does.  What an operator /
builtin / NumPy function / method does on each type of value is defined by the evaluator; Proofs/MatchTie*.v
prove the generated programs equal to the hand-written model (Model/Events.v, Model/Matching.v).

Accepted fragment
  def          positional-or-keyword parameters, defaults = literal (None / bool / int / float / str); no decorator,
               *args, **kwargs, no global / nonlocal.  A nested def (one level) as a statement of the function body;
               its name is bound by exactly that one def, and is mentioned only as the callee of a call (the closure
               never escapes).
  statements   <name or tuple of names> = e | a[i] = e | del a[i] | e (expression statement) | if / elif / else |
               for <name or nested tuples of names> in e: (no else) | while e: (no else) | break | return [e] | pass |
               def (nested)
  expressions  parameters and locals (in a nested def also those of the enclosing function), None / bool / int /
               float / str literals, -<number literal>, tuples, lists, {} ,
               one comparison == != < <= > >= is `is not` in `not in`; not / and / or; + - *;
               a[i], a[lo:hi]; [body for x in e];
               enumerate zip dict list sorted range int len (positional; or one starred argument), with zip / enumerate only as the
               iterable of a for loop (or directly inside enumerate there) and d.items() only directly inside
               sorted / list (these lazily evaluated objects are read as immutable sequences);
               np.<dotted name>(positional and keyword arguments as written);
               x.append x.extend x.setdefault x.items;
               calls of functions of the module (positional arguments only; their parameter lists are read from the
               source in the same run and emitted as `match_callee_sigs`), of a local that holds a function, of a
               nested function.
What this file decides itself
  * which names are locals (Python's rule: assigned anywhere in the body, nested scopes excluded; a comprehension
    variable is local to the comprehension); that every function translated or called has exactly one top-level def and
    is not rebound at module level, that `np` is numpy (exactly `import numpy as np`, never rebound) and that the
    builtins used are not shadowed by a parameter, a local or a module-level name.
"""
import ast
import re
from fractions import Fraction
from .common import module, top_func, TranslationError, HEADER

OUTPUTS = ['MatchGen.v']
FUNCS = ['_outer_distance_mod_n', '_fast_hit_windows', 'match_events', '_bipartite_match']
BUILTINS = {'enumerate', 'zip', 'dict', 'list', 'sorted', 'range', 'int', 'len'}
LAZY = {'enumerate', 'zip'}
METHODS = {'append', 'extend', 'setdefault', 'items'}
CMP = {ast.Eq: 'CEq', ast.NotEq: 'CNe', ast.Lt: 'CLt', ast.LtE: 'CLe', ast.Gt: 'CGt', ast.GtE: 'CGe', ast.Is: 'CIs',
       ast.IsNot: 'CIsNot', ast.In: 'CIn', ast.NotIn: 'CNotIn'}
BIN = {ast.Add: 'Add', ast.Sub: 'Sub', ast.Mult: 'Mul'}
NAME_RE = re.compile(r'^[A-Za-z_][A-Za-z0-9_]*(\.[A-Za-z_][A-Za-z0-9_]*)*$')
SCOPES = (ast.FunctionDef, ast.AsyncFunctionDef, ast.Lambda, ast.ClassDef, ast.ListComp, ast.SetComp, ast.DictComp,
          ast.GeneratorExp)


def fail(msg, node=None):
    where = ''
    if node is not None:
        where = ' at line %s: %s' % (getattr(node, 'lineno', '?'), ast.unparse(node)[:160])
    raise TranslationError('matchfuncs: ' + msg + where)


def cstr(s):
    if not (isinstance(s, str) and s.isascii() and NAME_RE.match(s)):
        fail('unusual name %r' % (s,))
    return '"%s"' % s


def cz(n):
    if isinstance(n, bool) or not isinstance(n, int) or abs(n) >= 2 ** 62:
        fail('unsupported integer literal %r' % (n,))
    return '(%d)%%Z' % n


def cq(x):
    if not isinstance(x, float) or x != x or x in (float('inf'), float('-inf')):
        fail('unsupported float literal %r' % (x,))
    f = Fraction(x)
    if abs(f.numerator) >= 2 ** 200 or f.denominator >= 2 ** 200:
        fail('float literal %r needs too many digits' % (x,))
    return '((%d)#%d)%%Q' % (f.numerator, f.denominator)


def clist(items):
    return '[' + '; '.join(items) + ']'


def const(node):
    v = node.value
    if v is None:
        return 'ENone'
    if isinstance(v, bool):
        return 'EBool %s' % ('true' if v else 'false')
    if isinstance(v, int):
        return 'EInt %s' % cz(v)
    if isinstance(v, float):
        return 'EFloat %s' % cq(v)
    if isinstance(v, str):
        if not (v.isascii() and re.match(r'^[A-Za-z0-9_ .-]*$', v)):
            fail('unsupported string literal %r' % (v,), node)
        return 'EStr "%s"' % v
    fail('unsupported constant', node)


def assigned_names(body):
    """names bound in this scope (Python's rule), nested scopes excluded"""
    out = []

    def tgt(t):
        if isinstance(t, ast.Name):
            out.append(t.id)
        elif isinstance(t, (ast.Tuple, ast.List)):
            for e in t.elts:
                tgt(e)
        elif isinstance(t, (ast.Subscript, ast.Attribute)):
            pass
        else:
            fail('unsupported binding target', t)

    def visit(n):
        if isinstance(n, (ast.FunctionDef,)):
            out.append(n.name)
            return
        if isinstance(n, SCOPES):
            return
        if isinstance(n, ast.Assign):
            for t in n.targets:
                tgt(t)
        elif isinstance(n, ast.For):
            tgt(n.target)
        elif isinstance(n, (ast.AugAssign, ast.AnnAssign, ast.With, ast.Import, ast.ImportFrom, ast.Global, ast.Nonlocal,
                            ast.NamedExpr, ast.Try, ast.AsyncFor, ast.AsyncWith, ast.ClassDef)) or \
                type(n).__name__ in ('Match', 'TryStar'):
            fail('statement outside the fragment', n)
        for c in ast.iter_child_nodes(n):
            visit(c)

    for s in body:
        visit(s)
    seen = []
    for x in out:
        if x not in seen:
            seen.append(x)
    return seen


class Fun:
    """translation of one function body"""

    def __init__(self, tr, fn, qual, outer):
        self.tr, self.fn, self.qual, self.outer = tr, fn, qual, outer
        a = fn.args
        if fn.decorator_list or a.vararg or a.kwarg or a.kwonlyargs or a.posonlyargs or fn.returns is not None:
            fail('unsupported def', fn)
        self.params = [p.arg for p in a.args]
        for p in a.args:
            if p.annotation is not None:
                fail('annotation', fn)
        nd = len(a.defaults)
        self.defaults = [None] * (len(self.params) - nd) + list(a.defaults)
        body = list(fn.body)
        if body and isinstance(body[0], ast.Expr) and isinstance(body[0].value, ast.Constant) \
                and isinstance(body[0].value.value, str):
            body = body[1:]
        self.body = body
        names = assigned_names(body)
        if len(set(self.params)) != len(self.params):
            fail('repeated parameter', fn)
        self.locals = [x for x in names if x not in self.params]
        self.nested = {}
        for n in ast.walk(ast.Module(body=body, type_ignores=[])):
            if isinstance(n, ast.FunctionDef):
                if outer is not None:
                    fail('def nested more than one level', n)
                if n.name in self.nested:
                    fail('nested function defined twice', n)
                self.nested[n.name] = n
        for x in self.params + self.locals:
            cstr(x)
            if x in BUILTINS or x in ('np', 'True', 'False', 'None') or x in tr.modfuncs:
                fail('name %s shadows a builtin / module name' % x, fn)
        # a nested function's name: bound only by its def, mentioned only as a callee
        for name in self.nested:
            binds = 0
            for n in ast.walk(ast.Module(body=body, type_ignores=[])):
                if isinstance(n, ast.Name) and n.id == name:
                    if not isinstance(n.ctx, ast.Load):
                        fail('nested function name %s is rebound' % name, n)
                if isinstance(n, ast.FunctionDef) and n.name == name:
                    binds += 1
                if isinstance(n, ast.arg) and n.arg == name:
                    fail('nested function name %s is rebound' % name, n)
            if binds != 1:
                fail('nested function %s' % name, fn)
            self.check_callee_only(ast.Module(body=body, type_ignores=[]), name)

    def check_callee_only(self, tree, name):
        callee_ids = set()
        for n in ast.walk(tree):
            if isinstance(n, ast.Call) and isinstance(n.func, ast.Name) and n.func.id == name:
                callee_ids.add(id(n.func))
        for n in ast.walk(tree):
            if isinstance(n, ast.Name) and n.id == name and id(n) not in callee_ids:
                fail('nested function %s is mentioned outside a call' % name, n)

    def known(self, x, compvars):
        if x in compvars or x in self.params or x in self.locals:
            return True
        if self.outer is not None and (x in self.outer.params or x in self.outer.locals):
            return True
        return False

    def is_funlocal(self, x):
        """x names a local / parameter (possibly of the enclosing function)"""
        return self.known(x, ())

    # ---------------------------------------------------------------- expressions
    def exp(self, e, cv=(), lazy_ok=False, items_ok=False):
        E = lambda x: self.exp(x, cv)
        if isinstance(e, ast.Constant):
            return const(e)
        if isinstance(e, ast.Name):
            if not isinstance(e.ctx, ast.Load):
                fail('store context', e)
            if self.known(e.id, cv):
                return 'ELoc %s' % cstr(e.id)
            fail('name %s is neither a parameter nor a local' % e.id, e)
        if isinstance(e, ast.UnaryOp):
            if isinstance(e.op, ast.Not):
                return 'ENot (%s)' % E(e.operand)
            if isinstance(e.op, ast.USub) and isinstance(e.operand, ast.Constant) \
                    and isinstance(e.operand.value, (int, float)) and not isinstance(e.operand.value, bool):
                v = -e.operand.value
                return 'EInt %s' % cz(v) if isinstance(v, int) else 'EFloat %s' % cq(v)
            fail('unsupported unary operator', e)
        if isinstance(e, ast.Tuple):
            return 'ETuple %s' % clist([E(x) for x in e.elts])
        if isinstance(e, ast.List):
            return 'EList %s' % clist([E(x) for x in e.elts])
        if isinstance(e, ast.Dict):
            if e.keys:
                fail('only the empty dict display is accepted', e)
            return 'EDictNew'
        if isinstance(e, ast.Compare):
            if len(e.ops) != 1 or type(e.ops[0]) not in CMP:
                fail('unsupported comparison', e)
            return 'ECmp %s (%s) (%s)' % (CMP[type(e.ops[0])], E(e.left), E(e.comparators[0]))
        if isinstance(e, ast.BoolOp):
            c = 'EAnd' if isinstance(e.op, ast.And) else 'EOr'
            vals = [E(x) for x in e.values]
            r = vals[-1]
            for v in reversed(vals[:-1]):
                r = '%s (%s) (%s)' % (c, v, r)
            return r
        if isinstance(e, ast.BinOp):
            if type(e.op) not in BIN:
                fail('unsupported binary operator', e)
            return 'EBin %s (%s) (%s)' % (BIN[type(e.op)], E(e.left), E(e.right))
        if isinstance(e, ast.Subscript):
            if not isinstance(e.ctx, ast.Load):
                fail('store context', e)
            if isinstance(e.slice, ast.Slice):
                s = e.slice
                if s.lower is None or s.upper is None or s.step is not None:
                    fail('only a[lo:hi] slices are accepted', e)
                return 'ESlice (%s) (%s) (%s)' % (E(e.value), E(s.lower), E(s.upper))
            if isinstance(e.slice, (ast.Tuple, ast.Starred)):
                fail('unsupported subscript', e)
            return 'EIndex (%s) (%s)' % (E(e.value), E(e.slice))
        if isinstance(e, ast.ListComp):
            if len(e.generators) != 1:
                fail('one generator only', e)
            g = e.generators[0]
            if g.ifs or g.is_async or not isinstance(g.target, ast.Name):
                fail('unsupported comprehension', e)
            x = g.target.id
            cstr(x)
            if x in BUILTINS or x == 'np' or x in self.tr.modfuncs:
                fail('comprehension variable shadows a name', e)
            return 'EComp (%s) %s (%s)' % (self.exp(e.elt, tuple(cv) + (x,)), cstr(x), E(g.iter))
        if isinstance(e, ast.Call):
            return self.call(e, cv, lazy_ok, items_ok)
        fail('expression outside the fragment', e)

    def dotted(self, f):
        parts = []
        while isinstance(f, ast.Attribute):
            parts.append(f.attr)
            f = f.value
        if isinstance(f, ast.Name):
            parts.append(f.id)
            return list(reversed(parts))
        return None

    def call(self, e, cv, lazy_ok, items_ok):
        E = lambda x: self.exp(x, cv)
        f = e.func
        star = [a for a in e.args if isinstance(a, ast.Starred)]
        for k in e.keywords:
            if k.arg is None:
                fail('**kwargs', e)
        if isinstance(f, ast.Name):
            name = f.id
            if self.known(name, cv):                       # a local holding a function / a nested function
                if star or e.keywords:
                    fail('call of a local with starred / keyword arguments', e)
                return 'ECallV %s %s' % (cstr(name), clist([E(a) for a in e.args]))
            if name in BUILTINS:
                if name in self.tr.modnames:
                    fail('builtin %s is shadowed at module level' % name, e)
                if name in LAZY and not lazy_ok:
                    fail('%s(...) is accepted only as the iterable of a for loop' % name, e)
                if e.keywords:
                    fail('keyword argument of a builtin', e)
                inner_lazy = (name == 'enumerate')
                inner_items = name in ('sorted', 'list')
                if star:
                    if len(e.args) != 1:
                        fail('a starred argument must be the only argument', e)
                    return 'EPrimStar %s (%s)' % (cstr(name), E(e.args[0].value))
                return 'EPrim %s %s []' % (cstr(name), clist(
                    [self.exp(a, cv, lazy_ok=inner_lazy, items_ok=inner_items) for a in e.args]))
            if name in self.tr.modfuncs:
                if star or e.keywords:
                    fail('call of a module function with starred / keyword arguments', e)
                self.tr.note_callee(name, len(e.args), e)
                return 'ECall %s %s' % (cstr(name), clist([E(a) for a in e.args]))
            fail('call of unknown name %s' % name, e)
        if isinstance(f, ast.Attribute):
            d = self.dotted(f)
            if d is not None and d[0] == 'np' and not self.known('np', cv):
                if star:
                    fail('starred argument of a NumPy function', e)
                kws = ['(%s, %s)' % (cstr(k.arg), E(k.value)) for k in e.keywords]
                return 'EPrim %s %s %s' % (cstr('.'.join(d)), clist([E(a) for a in e.args]), clist(kws))
            if f.attr in METHODS:
                if star or e.keywords:
                    fail('method call with starred / keyword arguments', e)
                if f.attr == 'items' and not items_ok:
                    fail('.items() is accepted only directly inside sorted(...) / list(...)', e)
                return 'EMeth (%s) %s %s' % (E(f.value), cstr(f.attr), clist([E(a) for a in e.args]))
            fail('unsupported attribute call', e)
        fail('unsupported call', e)

    # ---------------------------------------------------------------- statements
    def target(self, t):
        if isinstance(t, ast.Name):
            if t.id not in self.locals and t.id not in self.params:
                fail('assignment to a name that is not a local', t)
            return 'TName %s' % cstr(t.id)
        if isinstance(t, (ast.Tuple, ast.List)):
            if any(isinstance(x, ast.Starred) for x in t.elts):
                fail('starred target', t)
            return 'TTup %s' % clist([self.target(x) for x in t.elts])
        fail('unsupported target', t)

    def index_target(self, t):
        if not isinstance(t, ast.Subscript) or isinstance(t.slice, (ast.Slice, ast.Tuple, ast.Starred)):
            fail('unsupported subscript target', t)
        return self.exp(t.value), self.exp(t.slice)

    def block(self, body):
        return clist([self.stmt(s) for s in body])

    def stmt(self, s):
        if isinstance(s, ast.Assign):
            if len(s.targets) != 1:
                fail('chained assignment', s)
            t = s.targets[0]
            if isinstance(t, ast.Subscript):
                a, i = self.index_target(t)
                return 'SSetItem (%s) (%s) (%s)' % (a, i, self.exp(s.value))
            return 'SAssign (%s) (%s)' % (self.target(t), self.exp(s.value))
        if isinstance(s, ast.Delete):
            if len(s.targets) != 1:
                fail('del of several targets', s)
            a, i = self.index_target(s.targets[0])
            return 'SDelItem (%s) (%s)' % (a, i)
        if isinstance(s, ast.Expr):
            return 'SExpr (%s)' % self.exp(s.value)
        if isinstance(s, ast.If):
            return 'SIf (%s) %s %s' % (self.exp(s.test), self.block(s.body), self.block(s.orelse))
        if isinstance(s, ast.For):
            if s.orelse:
                fail('for ... else', s)
            return 'SFor (%s) (%s) %s' % (self.target(s.target), self.exp(s.iter, lazy_ok=True), self.block(s.body))
        if isinstance(s, ast.While):
            if s.orelse:
                fail('while ... else', s)
            return 'SWhile (%s) %s' % (self.exp(s.test), self.block(s.body))
        if isinstance(s, ast.FunctionDef):
            if self.outer is not None:
                fail('def nested more than one level', s)
            return 'SDef %s %s' % (cstr(s.name), cstr(self.qual + '.' + s.name))
        if isinstance(s, ast.Return):
            return 'SReturn (%s)' % (self.exp(s.value) if s.value is not None else 'ENone')
        if isinstance(s, ast.Break):
            return 'SBreak'
        if isinstance(s, ast.Pass):
            return 'SPass'
        fail('statement outside the fragment', s)

    def emit(self):
        ps = []
        for p, d in zip(self.params, self.defaults):
            if d is None:
                ps.append('(%s, None)' % cstr(p))
            else:
                if isinstance(d, ast.Constant):
                    ps.append('(%s, Some (%s))' % (cstr(p), const(d)))
                else:
                    fail('non-literal default', d)
        return ('{| f_params := %s;\n     f_locals := %s;\n     f_body := %s |}'
                % (clist(ps), clist([cstr(x) for x in self.locals]), self.block(self.body)))


class Translator:
    def __init__(self):
        self.tree = module('util')
        self.modfuncs = set()
        self.modnames = set()
        np_ok = 0
        for n in self.tree.body:
            if isinstance(n, ast.FunctionDef):
                self.modfuncs.add(n.name)
                self.modnames.add(n.name)
            elif isinstance(n, ast.Import):
                for a in n.names:
                    nm = a.asname or a.name.split('.')[0]
                    self.modnames.add(nm)
                    if nm == 'np':
                        if a.name != 'numpy':
                            fail('np is not numpy', n)
                        np_ok += 1
            elif isinstance(n, ast.ImportFrom):
                for a in n.names:
                    self.modnames.add(a.asname or a.name)
            elif isinstance(n, (ast.Assign, ast.AugAssign, ast.AnnAssign)):
                for x in ast.walk(n):
                    if isinstance(x, ast.Name) and isinstance(x.ctx, ast.Store):
                        self.modnames.add(x.id)
            elif isinstance(n, ast.ClassDef):
                self.modnames.add(n.name)
        if np_ok != 1:
            fail('expected exactly one `import numpy as np`')
        for n in ast.walk(self.tree):                      # np never rebound anywhere
            if isinstance(n, ast.Name) and n.id == 'np' and not isinstance(n.ctx, ast.Load):
                fail('np is rebound', n)
            if isinstance(n, ast.arg) and n.arg == 'np':
                fail('np is rebound', n)
            if isinstance(n, (ast.Global, ast.Nonlocal)):
                pass
        self.callees = {}

    def note_callee(self, name, nargs, node):
        fn = top_func(self.tree, name)
        a = fn.args
        if a.vararg or a.kwarg or a.kwonlyargs or a.posonlyargs:
            fail('callee %s has an unsupported signature' % name, node)
        ps = [p.arg for p in a.args]
        nd = len(a.defaults)
        ds = [None] * (len(ps) - nd) + list(a.defaults)
        sig = []
        for p, d in zip(ps, ds):
            if d is None:
                sig.append('(%s, None)' % cstr(p))
            elif isinstance(d, ast.Constant):
                sig.append('(%s, Some (%s))' % (cstr(p), const(d)))
            else:
                fail('callee %s has a non-literal default' % name, node)
        self.callees[name] = clist(sig)

    def run(self):
        funs = []
        for name in FUNCS:
            fn = top_func(self.tree, name)
            for n in ast.walk(fn):
                if isinstance(n, (ast.Global, ast.Nonlocal, ast.Lambda, ast.Yield, ast.YieldFrom, ast.Await)):
                    fail('construct outside the fragment', n)
            F = Fun(self, fn, name, None)
            funs.append((name, F.emit()))
            for nname, nfn in F.nested.items():
                G = Fun(self, nfn, name + '.' + nname, F)
                if G.nested:
                    fail('def nested more than one level', nfn)
                funs.append((name + '.' + nname, G.emit()))
        out = [HEADER,
               '(* mir_eval/util.py: the event matcher, as programs of Model/HeapPy.v *)\n',
               'From Coq Require Import String.\nFrom Coq Require Import List ZArith QArith.\n',
               'From ME Require Import Model.Prelude Model.HeapPy.\nImport ListNotations.\nLocal Open Scope string_scope.\n\n']
        for name, text in funs:
            out.append('Definition gen_%s : fdef :=\n  %s.\n\n' % (name.strip('_').replace('.', '_'), text))
        out.append('Definition match_funs : list (string * fdef) :=\n  %s.\n\n' % clist(
            ['(%s, gen_%s)' % (cstr(n), n.strip('_').replace('.', '_')) for n, _ in funs]))
        out.append('(* parameter lists of the module functions called by the programs above *)\n')
        out.append('Definition match_callee_sigs : list (string * list (string * option exp)) :=\n  %s.\n' % clist(
            ['(%s, %s)' % (cstr(n), s) for n, s in sorted(self.callees.items())]))
        return ''.join(out)


def generate():
    return {'MatchGen.v': Translator().run()}


if __name__ == '__main__':
    import sys
    sys.stdout.write(generate()['MatchGen.v'])
