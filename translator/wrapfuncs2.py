"""Third group of wrapper functions -> coq/Gen/WrapFuncs2.v (programs of the language of coq/Model/WrapExp.v; the
translation of statements, expressions and call sites is the one of translator/wrapfuncs.py, extended below).

  hierarchy.tmeasure / lmeasure   the parameter ladder (frame_size <= 0, window is None, frame_size > window,
                                  int(_round(window, frame_size) / frame_size)), validate_hier_intervals, _lca / _meet /
                                  _gauc with the arguments as written, util.f_measure(..., beta=beta), the returned order
  hierarchy.evaluate              _hierarchy_bounds, the two _align_intervals calls, kwargs["transitive"] = False / True,
                                  the three util.filter_kwargs calls, the nine keys of the returned dict
  segment.pairwise / rand_index / ari / mutual_information / nce / vmeasure
                                  validate_structure, the empty-input returns, intervals_to_samples(...)[-1],
                                  index_labels(...)[0], the core call(s), the arithmetic after them
  segment._normalized_mutual_info_score   (its guards and the normalisation; entropies / MI / sqrt are callees)

Callees are kept opaque; their signatures (parameter names in order, literal defaults) are read from the source in
the same run and emitted as `callee_sigs3`, and arguments are bound to parameters in Coq (WrapExp.bind_args).
NumPy / SciPy functions, array methods and array attributes met in these bodies are primitives whose signatures are
fixed in NUMPY3 below; `x.T`, `x.shape`, `~x`, `x.astype(float)`, `np.array(x, dtype="float")` are read as calls of the
primitives "ndarray.T", "ndarray.shape", "ndarray.__invert__", "ndarray.astype(float)", "np.array(dtype=float)".
`util.filter_kwargs(f, a1, ..., ak, **kwargs)` with f a function of the same module is read as a call of the opaque
combinator "util.filter_kwargs(<module>.f)" on (a1, ..., ak, kwargs); the signature of f is emitted with the others,
and util.filter_kwargs itself must have the parameters (_function, *args, **kwargs).
Python ast only; mir_eval is never imported; anything outside the fragment raises TranslationError.

Accepted in addition to the fragment of wrapfuncs.py
  statements   raise <BuiltinError>(<string literal>.format(<names>))
               x1, ..., xk = e1, ..., ek      (targets distinct, not read by any ei: translated left to right)
               d["key"] = <expr>              (d the function's **kwargs or a local collections.OrderedDict())
               (d["k1"], ..., d["kn"]) = util.filter_kwargs(f, a1, ..., ak, **kwargs)
  expressions  x is None / x is not None, chained comparisons a op b op c (b and c evaluated without calls),
               e[i] with i an integer literal, a + b, a * b, int(a), max(a, b), collections.OrderedDict(),
               the primitives above
"""
import ast
import re
from .common import top_func, TranslationError, HEADER
from . import wrapfuncs as W
from .wrapfuncs import cstr, literal, CMP

OUTPUTS = ['WrapFuncs2.v']

SPEC3 = [('hierarchy', 'tmeasure', 'gen_hier_tmeasure'), ('hierarchy', 'lmeasure', 'gen_hier_lmeasure'),
         ('hierarchy', 'evaluate', 'gen_hier_evaluate'),
         ('segment', 'pairwise', 'gen_segment_pairwise'), ('segment', 'rand_index', 'gen_segment_rand_index'),
         ('segment', 'ari', 'gen_segment_ari'), ('segment', 'mutual_information', 'gen_segment_mutual_information'),
         ('segment', 'nce', 'gen_segment_nce'), ('segment', 'vmeasure', 'gen_segment_vmeasure'),
         ('segment', '_normalized_mutual_info_score', 'gen_segment_nmi_core')]
# functions that may be called (names: WrapExp.callee_names, third group)
CALLEES3 = [('hierarchy', 'validate_hier_intervals'), ('hierarchy', '_lca'), ('hierarchy', '_meet'), ('hierarchy', '_gauc'),
            ('hierarchy', '_round'), ('hierarchy', '_hierarchy_bounds'), ('hierarchy', '_align_intervals'),
            ('util', 'f_measure'), ('segment', 'validate_structure'), ('util', 'intervals_to_samples'), ('util', 'index_labels'),
            ('segment', '_contingency_matrix'), ('segment', '_adjusted_rand_index'), ('segment', '_mutual_info_score'),
            ('segment', '_adjusted_mutual_info_score'), ('segment', '_normalized_mutual_info_score'), ('segment', '_entropy'),
            ('segment', 'nce')]
# functions that may be handed to util.filter_kwargs (their signatures are emitted too)
FILTERED = [('hierarchy', 'tmeasure'), ('hierarchy', 'lmeasure')]
# NumPy / SciPy primitives: (callee name -> parameters with literal defaults)
NUMPY3 = {'np.equal.outer': [('A', None), ('B', None)], 'np.logical_and': [('x1', None), ('x2', None)],
          'np.log2': [('x', None)], 'np.sqrt': [('x', None)], 'np.unique': [('ar', None)],
          'scipy.stats.entropy': [('pk', None), ('qk', 'WNoneE'), ('base', 'WNoneE'), ('axis', '(WInt (0)%Z)')],
          'ndarray.sum': [('self', None), ('axis', 'WNoneE')], 'ndarray.dot': [('self', None), ('b', None)],
          'ndarray.T': [('self', None)], 'ndarray.shape': [('self', None)], 'ndarray.__invert__': [('self', None)],
          'ndarray.astype(float)': [('self', None)], 'np.array(dtype=float)': [('object', None)]}
METHODS = {'sum', 'dot'}
PURE_ATTRS = {'ndarray.T', 'ndarray.shape'}           # total on arrays, no effect: may be evaluated early
MODULE_NAMES = {'np', 'scipy', 'collections', 'warnings', 'itertools'}
RESERVED = {'int', 'max', 'min', 'len', 'float', 'list', 'zip'} | MODULE_NAMES
EXN = W.EXN


def fail(msg, node=None):
    where = ''
    if node is not None:
        where = ' at line %s: %s' % (getattr(node, 'lineno', '?'), ast.unparse(node)[:160])
    raise TranslationError('wrapfuncs2: ' + msg + where)


def int_const(n):
    """an integer literal, possibly negated"""
    if isinstance(n, ast.Constant) and isinstance(n.value, int) and not isinstance(n.value, bool):
        return n.value
    if isinstance(n, ast.UnaryOp) and isinstance(n.op, ast.USub) and isinstance(n.operand, ast.Constant) \
            and isinstance(n.operand.value, int) and not isinstance(n.operand.value, bool):
        return -n.operand.value
    return None


class Modules3(W.Modules):
    def imports(self, mod, dotted):
        """`import a.b.c` (without alias) occurs at module level"""
        return any(isinstance(n, ast.Import) and any(al.name == dotted and al.asname is None for al in n.names)
                   for n in self.tree(mod).body)

    def check_globals3(self, mod):
        """names used to reach callees are bound once at module level: by their def / import only"""
        tree = self.tree(mod)
        watched = self.submodules(mod) | {f for m, f in CALLEES3 + FILTERED if m == mod} | MODULE_NAMES
        for n in ast.walk(tree):
            if isinstance(n, (ast.Global, ast.Nonlocal)) and set(n.names) & watched:
                fail('%s: global / nonlocal declaration of a watched name' % mod, n)
        for n in tree.body:
            stores = []
            if isinstance(n, (ast.FunctionDef, ast.ClassDef, ast.Import, ast.ImportFrom)):
                continue                            # defs are counted by top_func; imports are checked where they are used
            for x in ast.walk(n):
                if isinstance(x, ast.Name) and isinstance(x.ctx, (ast.Store, ast.Del)):
                    stores.append(x.id)
            for x in stores:
                if x in watched:
                    fail('%s rebinds %s at module level' % (mod, x), n)
        for n in tree.body:
            if isinstance(n, (ast.Import, ast.ImportFrom)):
                for al in n.names:
                    bound = al.asname or al.name.split('.')[0]
                    if bound in {f for m, f in CALLEES3 + FILTERED if m == mod}:
                        fail('%s: an import rebinds %s' % (mod, bound), n)
            if isinstance(n, ast.ClassDef) and n.name in watched:
                fail('%s: a class rebinds %s' % (mod, n.name), n)

    def check_filter_kwargs(self):
        f = top_func(self.tree('util'), 'filter_kwargs')
        a = f.args
        ok = (not f.decorator_list and [x.arg for x in a.args] == ['_function'] and not a.posonlyargs and not a.kwonlyargs
              and a.vararg is not None and a.kwarg is not None and not a.defaults)
        if not ok:
            fail('util.filter_kwargs does not have the parameters (_function, *args, **kwargs)')


class Fn3(W.Fn):
    def __init__(self, mods, mod, fn):
        W.Fn.__init__(self, mods, mod, fn, None, callees=CALLEES3, numpy=True)
        self.kwarg = None
        self.dicts = set()          # local names bound to collections.OrderedDict()
        self.used_filtered = []

    # ---- callees ----
    def module_ok(self, name):
        """the module object `name` is what the import at the top of the file bound"""
        if name in self.scope:
            return False
        if name == 'np':
            return self.mods.has_numpy(self.mod)
        if name == 'collections':
            return self.mods.imports(self.mod, 'collections')
        return False

    def callee(self, f):
        if isinstance(f, ast.Name) and (self.mod, f.id) in self.callees and f.id not in self.scope:
            return self.mod, f.id
        if isinstance(f, ast.Attribute) and isinstance(f.value, ast.Name) and f.value.id in self.subs \
                and f.value.id not in self.scope and (f.value.id, f.attr) in self.callees:
            return f.value.id, f.attr
        name = ast.unparse(f)
        if name in NUMPY3 and name.startswith('np.') and self.module_ok('np'):
            return 'np', name[3:]
        if name == 'scipy.stats.entropy' and 'scipy' not in self.scope and self.mods.imports(self.mod, 'scipy.stats'):
            return 'scipy.stats', 'entropy'
        if isinstance(f, ast.Attribute) and f.attr in METHODS and 'ndarray.' + f.attr in NUMPY3 \
                and not (isinstance(f.value, ast.Name) and (f.value.id in MODULE_NAMES or f.value.id in self.subs)):
            return 'ndarray', f.attr            # a method of an array expression: the receiver is the first argument
        return None

    def hoist(self, name, pos, node, kws=()):
        """a call of a primitive inside an expression: bound to a temporary before the statement"""
        if self.impure and name not in PURE_ATTRS:
            fail('a call is evaluated after an operation that can raise in the same statement', node)
        self.tmp += 1
        t = 'call#%d' % self.tmp
        self.pre.append('SCallLet (Some %s) %s [%s] [%s]' % (cstr(t), cstr(name), '; '.join(pos),
                                                            '; '.join('(%s, %s)' % (cstr(k), v) for k, v in kws)))
        self.scope.append(t)
        return '(WVar %s)' % cstr(t)

    def no_calls(self, build, node, what):
        """translate with `build`; only pure attribute primitives may be hoisted out of it"""
        before = len(self.pre)
        out = build()
        for st in self.pre[before:]:
            if not any(re.match(r'SCallLet \(Some "call#\d+"\) %s \[' % re.escape(cstr(p)), st) for p in PURE_ATTRS):
                fail('a call in %s' % what, node)
        return out

    # ---- expressions ----
    def ex(self, n):
        if isinstance(n, ast.Compare) and len(n.ops) == 1 and isinstance(n.ops[0], (ast.Is, ast.IsNot)):
            c = n.comparators[0]
            if not (isinstance(c, ast.Constant) and c.value is None):
                fail('only  is None / is not None', n)
            e = '(WIsNone %s)' % self.ex(n.left)
            return e if isinstance(n.ops[0], ast.Is) else '(WNot %s)' % e
        if isinstance(n, ast.Compare) and len(n.ops) > 1:
            if any(type(o) not in CMP for o in n.ops):
                fail('unsupported comparison', n)
            es = [self.ex(n.left)]
            for i, c in enumerate(n.comparators):
                # the operands after the first comparison are evaluated lazily, and the middle ones are read twice here
                # (an index error in a lazily evaluated operand is outside the modelled fragment: WrapExp.pure_only)
                es.append(self.no_calls(lambda: self.ex(c), n, 'a chained comparison'))
            parts = ['(WCmp %s %s %s)' % (CMP[type(o)], es[i], es[i + 1]) for i, o in enumerate(n.ops)]
            out = parts[-1]
            for p in reversed(parts[:-1]):
                out = '(WAnd %s %s)' % (p, out)
            return out
        if isinstance(n, ast.BoolOp):
            comb = 'WAnd' if isinstance(n.op, ast.And) else 'WOr'
            parts = [self.ex(n.values[0])]
            for x in n.values[1:]:
                parts.append(self.no_calls(lambda: self.ex(x), n, 'a lazily evaluated operand'))
            out = parts[-1]
            for p in reversed(parts[:-1]):
                out = '(%s %s %s)' % (comb, p, out)
            return out
        if isinstance(n, ast.Subscript) and int_const(n.slice) is not None:
            a = self.ex(n.value)
            self.impure = True
            return '(WItem %s (%d)%%Z)' % (a, int_const(n.slice))
        if isinstance(n, ast.BinOp) and isinstance(n.op, (ast.Add, ast.Mult)):
            a = self.ex(n.left)
            b = self.ex(n.right)
            return '(%s %s %s)' % ('WAdd' if isinstance(n.op, ast.Add) else 'WMul', a, b)
        if isinstance(n, ast.UnaryOp) and isinstance(n.op, ast.Invert):
            return self.hoist('ndarray.__invert__', [self.ex(n.operand)], n)
        if isinstance(n, ast.Attribute) and n.attr in ('T', 'shape') \
                and not (isinstance(n.value, ast.Name) and (n.value.id in MODULE_NAMES or n.value.id in self.subs)):
            return self.hoist('ndarray.' + n.attr, [self.ex(n.value)], n)
        if isinstance(n, ast.Call):
            name = ast.unparse(n.func)
            if name in ('int', 'max') and name not in self.scope and not n.keywords:
                if name == 'int' and len(n.args) == 1:
                    a = self.ex(n.args[0])
                    self.impure = True
                    return '(WPyInt %s)' % a
                if name == 'max' and len(n.args) == 2:
                    a = self.ex(n.args[0])
                    b = self.ex(n.args[1])
                    return '(WMax %s %s)' % (a, b)
                fail('unsupported use of %s' % name, n)
            if name == 'collections.OrderedDict' and not n.args and not n.keywords and self.module_ok('collections'):
                return 'WEmptyDict'
            if isinstance(n.func, ast.Attribute) and n.func.attr == 'astype' and len(n.args) == 1 and not n.keywords \
                    and isinstance(n.args[0], ast.Name) and n.args[0].id == 'float' and 'float' not in self.scope:
                return self.hoist('ndarray.astype(float)', [self.ex(n.func.value)], n)
            if name == 'np.array' and self.module_ok('np') and len(n.args) == 1 and len(n.keywords) == 1 \
                    and n.keywords[0].arg == 'dtype' and isinstance(n.keywords[0].value, ast.Constant) \
                    and n.keywords[0].value.value == 'float':
                return self.hoist('np.array(dtype=float)', [self.ex(n.args[0])], n)
        return W.Fn.ex(self, n)

    # ---- statements ----
    def bind(self, x, node):
        if x in RESERVED or (self.mod, x) in FILTERED:
            fail('assignment to a reserved name %r' % x, node)
        W.Fn.bind(self, x, node)

    def is_filter_kwargs(self, c):
        return (isinstance(c, ast.Call) and isinstance(c.func, ast.Attribute) and c.func.attr == 'filter_kwargs'
                and isinstance(c.func.value, ast.Name) and c.func.value.id == 'util' and 'util' in self.subs
                and 'util' not in self.scope)

    def filter_call(self, c):
        """util.filter_kwargs(f, a1, ..., ak, **kwargs) -> (callee name, positional arguments incl. the kwargs dict)"""
        if not c.args or not isinstance(c.args[0], ast.Name):
            fail('the first argument of util.filter_kwargs must be a function name', c)
        f = c.args[0].id
        if (self.mod, f) not in FILTERED or f in self.scope:
            fail('util.filter_kwargs of an unknown function', c)
        if len(c.keywords) != 1 or c.keywords[0].arg is not None or not isinstance(c.keywords[0].value, ast.Name) \
                or c.keywords[0].value.id != self.kwarg:
            fail('util.filter_kwargs must be given exactly **%s' % self.kwarg, c)
        pos = []
        for a in c.args[1:]:
            if isinstance(a, ast.Starred):
                fail('* argument', c)
            pos.append(self.no_calls(lambda: self.ex(a), c, 'an argument of util.filter_kwargs'))
        pos.append('(WVar %s)' % cstr(self.kwarg))
        if (self.mod, f, len(pos) - 1) not in self.used_filtered:
            self.used_filtered.append((self.mod, f, len(pos) - 1))
        return 'util.filter_kwargs(%s.%s)' % (self.mod, f), pos

    def dict_target(self, t):
        """d["key"] with d a dict this function owns -> (d, key)"""
        if isinstance(t, ast.Subscript) and isinstance(t.value, ast.Name) and isinstance(t.slice, ast.Constant) \
                and isinstance(t.slice.value, str) and t.value.id in self.scope \
                and (t.value.id == self.kwarg or t.value.id in self.dicts):
            return t.value.id, t.slice.value
        return None

    def statement(self, s):
        if isinstance(s, ast.Raise):
            e = s.exc
            name = e.func.id if isinstance(e, ast.Call) and isinstance(e.func, ast.Name) else None
            if s.cause is not None or name not in EXN or name in self.scope or e.keywords:
                fail('unsupported raise', s)
            for a in e.args:
                if isinstance(a, ast.Constant) and isinstance(a.value, str):
                    continue
                ok = (isinstance(a, ast.Call) and isinstance(a.func, ast.Attribute) and a.func.attr == 'format'
                      and isinstance(a.func.value, ast.Constant) and isinstance(a.func.value.value, str) and not a.keywords
                      and all(isinstance(x, ast.Name) and x.id in self.scope for x in a.args))
                if not ok:
                    fail('unsupported message of a raise', s)
            return ['SRaise %s' % name]
        if isinstance(s, ast.Assign) and len(s.targets) == 1:
            t = s.targets[0]
            # x1, ..., xk = e1, ..., ek
            if isinstance(t, ast.Tuple) and isinstance(s.value, ast.Tuple) and len(t.elts) == len(s.value.elts):
                if not all(isinstance(e, ast.Name) for e in t.elts) or len(set(e.id for e in t.elts)) != len(t.elts):
                    fail('a tuple target must consist of distinct names', s)
                targets = [e.id for e in t.elts]
                for v in s.value.elts:
                    if any(isinstance(m, ast.Name) and m.id in targets for m in ast.walk(v)):
                        fail('a simultaneous assignment whose right-hand side reads a target', s)
                out = []
                for x, v in zip(targets, s.value.elts):
                    out.extend(self.statement(ast.copy_location(ast.Assign(targets=[ast.Name(id=x, ctx=ast.Store())], value=v), s)))
                return out
            # d["key"] = e
            dk = self.dict_target(t)
            if dk is not None:
                d, key = dk

                def build():
                    return ['SLet %s (WDictSet (WVar %s) %s %s)' % (cstr(d), cstr(d), cstr(key), self.ex(s.value))]
                return self.with_pre(build)
            # (d["k1"], ..., d["kn"]) = util.filter_kwargs(f, ..., **kwargs)
            if isinstance(t, ast.Tuple) and self.is_filter_kwargs(s.value):
                dks = [self.dict_target(e) for e in t.elts]
                if any(x is None for x in dks):
                    fail('the targets of a filter_kwargs call must be d["key"]', s)

                def build():
                    name, pos = self.filter_call(s.value)
                    tmps = []
                    for _ in dks:
                        self.tmp += 1
                        tmps.append('item#%d' % self.tmp)
                        self.scope.append(tmps[-1])
                    out = ['SCallLetN [%s] %s [%s] []' % ('; '.join(cstr(x) for x in tmps), cstr(name), '; '.join(pos))]
                    for (d, key), x in zip(dks, tmps):
                        out.append('SLet %s (WDictSet (WVar %s) %s (WVar %s))' % (cstr(d), cstr(d), cstr(key), cstr(x)))
                    return out
                return self.with_pre(build)
            # d = collections.OrderedDict()
            if isinstance(t, ast.Name) and isinstance(s.value, ast.Call) and ast.unparse(s.value.func) == 'collections.OrderedDict':
                out = W.Fn.statement(self, s)
                self.dicts.add(t.id)
                return out
            if isinstance(t, ast.Name) and (t.id == self.kwarg or t.id in self.dicts):
                fail('a dict name is rebound', s)
        return W.Fn.statement(self, s)

    def run(self):
        fn, a = self.fn, self.fn.args
        if fn.decorator_list or a.posonlyargs or a.kwonlyargs or a.vararg:
            fail('%s: unexpected signature or decorator' % fn.name)
        if a.kwarg:
            self.kwarg = a.kwarg.arg
            self.params.append(self.kwarg)
            self.scope.append(self.kwarg)
        if len(set(self.params)) != len(self.params) or any(p in RESERVED or p in W.BUILTINS or p in self.subs for p in self.params):
            fail('%s: unusual parameters' % fn.name)
        body = list(fn.body)
        if body and isinstance(body[0], ast.Expr) and isinstance(body[0].value, ast.Constant) and isinstance(body[0].value.value, str):
            body = body[1:]
        for sub in ast.walk(fn):
            if isinstance(sub, (ast.Lambda, ast.FunctionDef, ast.Global, ast.Nonlocal, ast.NamedExpr, ast.Await, ast.Yield, ast.YieldFrom,
                                ast.For, ast.While, ast.Try, ast.With, ast.Starred, ast.AugAssign, ast.Delete, ast.ListComp,
                                ast.GeneratorExp, ast.SetComp, ast.DictComp, ast.IfExp, ast.Assert, ast.Import, ast.ImportFrom,
                                ast.ClassDef, ast.AsyncFunctionDef)) and sub is not fn:
                fail('%s: unsupported construct' % fn.name, sub)
        stmts = self.block(body)
        return ('{| wp_params := [%s];\n  wp_body := [\n    %s ] |}'
                % ('; '.join(cstr(p) for p in self.params), ';\n    '.join(stmts)))


def sig_text(name, ps):
    return '  (%s, [%s])' % (cstr(name), '; '.join('(%s, %s)' % (cstr(p), 'None' if d is None else 'Some %s' % d) for p, d in ps))


def generate():
    mods = Modules3()
    mods.check_filter_kwargs()
    progs, filtered = [], []
    for mod, py, coq in SPEC3:
        mods.check_globals3(mod)
        f = Fn3(mods, mod, top_func(mods.tree(mod), py))
        progs.append((mod, py, coq, f.run()))
        for x in f.used_filtered:
            if x not in filtered:
                filtered.append(x)
    sigs = [('%s.%s' % (m, f), mods.signature(m, f)) for m, f in CALLEES3]
    sigs += [('%s.%s' % (m, f), mods.signature(m, f)) for m, f in FILTERED]
    # the combinator applied to f with k positional arguments: those k, then the dict of keyword arguments
    for m, f, k in filtered:
        sigs.append(('util.filter_kwargs(%s.%s)' % (m, f), [('arg%d' % i, None) for i in range(k)] + [('kwargs', None)]))
    if len(set(n for n, _ in sigs)) != len(sigs):
        fail('filter_kwargs is applied to the same function with different numbers of arguments')
    sigs += sorted(NUMPY3.items())
    t = HEADER
    t += '(* third group of wrapper functions (hierarchy, segment structure metrics) as programs of Model/WrapExp.v *)\n'
    t += 'From Coq Require Import String.\nFrom Coq Require Import List ZArith QArith.\nFrom ME Require Import Model.Prelude Model.WrapExp.\n'
    t += 'Import ListNotations.\nLocal Open Scope string_scope.\n'
    t += 'Definition callee_sigs3 : list (string * sigt) := [\n%s].\n' % ';\n'.join(sig_text(n, ps) for n, ps in sigs)
    for mod, py, coq, text in progs:
        t += '(* %s.%s *)\nDefinition %s : wprog :=\n  %s.\n' % (mod, py, coq, text)
    return {'WrapFuncs2.v': t}
