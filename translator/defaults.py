"""Default parameter values of every function of the task modules, from the signatures AND from the numpydoc docstrings
-> coq/Gen/Defaults.v. Coq checks that the two agree and that the documented key defaults (Model/DefaultsSpec.v) are in force."""
import ast
import re
from fractions import Fraction
from .common import module, TranslationError, HEADER

OUTPUTS = ['Defaults.v']
MODULES = ['alignment', 'beat', 'chord', 'hierarchy', 'key', 'melody', 'multipitch', 'onset', 'pattern', 'segment', 'separation', 'tempo',
           'transcription', 'transcription_velocity', 'util']


def cstr(s):
    return '"' + s.replace('"', '""') + '"'


def num(v):
    f = Fraction(repr(v)) if isinstance(v, float) else Fraction(v)
    return '(DNum (%d) %d)' % (f.numerator, f.denominator)


def evalnum(n):
    """constant arithmetic such as 30 * 44100"""
    if isinstance(n, ast.Constant) and isinstance(n.value, (int, float)) and not isinstance(n.value, bool):
        return Fraction(repr(n.value)) if isinstance(n.value, float) else Fraction(n.value)
    if isinstance(n, ast.UnaryOp) and isinstance(n.op, ast.USub):
        return -evalnum(n.operand)
    if isinstance(n, ast.BinOp) and isinstance(n.op, (ast.Mult, ast.Add, ast.Sub)):
        a, b = evalnum(n.left), evalnum(n.right)
        return a * b if isinstance(n.op, ast.Mult) else a + b if isinstance(n.op, ast.Add) else a - b
    raise ValueError


def const_of(n):
    if isinstance(n, ast.Constant):
        v = n.value
        if v is None:
            return 'DNone'
        if isinstance(v, bool):
            return '(DBool %s)' % ('true' if v else 'false')
        if isinstance(v, str):
            return '(DStr %s)' % cstr(v)
    try:
        f = evalnum(n)
        return '(DNum (%d) %d)' % (f.numerator, f.denominator)
    except ValueError:
        return '(DExpr %s)' % cstr(ast.unparse(n))


def doc_value(txt):
    t = txt.strip().rstrip('.').strip()
    t = t.strip('`')
    if t in ('None',):
        return 'DNone'
    if t in ('True', 'False'):
        return '(DBool %s)' % t.lower()
    m = re.fullmatch(r'[\'"](.*)[\'"]', t)
    if m:
        return '(DStr %s)' % cstr(m.group(1))
    try:
        f = evalnum(ast.parse(t, mode='eval').body)
        return '(DNum (%d) %d)' % (f.numerator, f.denominator)
    except Exception:  # noqa
        return None


def doc_defaults(fn):
    doc = ast.get_docstring(fn) or ''
    m = re.search(r'^Parameters\s*\n-+\s*\n(.*?)(?:^\w[\w ]*\n-{3,}\s*\n|\Z)', doc, re.S | re.M)
    if not m:
        return []
    out = []
    cur = None
    block = []

    def flush():
        if cur is None:
            return
        txt = ' '.join(block)
        mm = re.search(r'\(?[Dd]efault value\s*=\s*([^)]*?)\)', txt) or re.search(r'[Dd]efault is\s+([-+0-9.e]+)', txt)
        if mm:
            v = doc_value(mm.group(1))
            if v is not None:
                out.append((cur, v))
    for line in m.group(1).split('\n'):
        h = re.match(r'^(\w+)\s*:', line)
        if h and not line.startswith(' '):
            flush()
            cur, block = h.group(1), []
        elif cur is not None:
            block.append(line.strip())
    flush()
    return out


def generate():
    sig_rows, doc_rows = [], []
    for m in MODULES:
        tree = module(m)
        for fn in tree.body:
            if not isinstance(fn, ast.FunctionDef):
                continue
            a = fn.args
            pos = a.posonlyargs + a.args
            defs = [None] * (len(pos) - len(a.defaults)) + list(a.defaults)
            pairs = [(p.arg, const_of(d)) for p, d in zip(pos, defs) if d is not None]
            pairs += [(p.arg, const_of(d)) for p, d in zip(a.kwonlyargs, a.kw_defaults) if d is not None]
            name = m + '.' + fn.name
            sig_rows.append('(%s, [%s])' % (cstr(name), '; '.join('(%s, %s)' % (cstr(k), v) for k, v in pairs)))
            dd = doc_defaults(fn)
            if dd:
                doc_rows.append('(%s, [%s])' % (cstr(name), '; '.join('(%s, %s)' % (cstr(k), v) for k, v in dd)))
    if len(sig_rows) < 100:
        raise TranslationError('suspiciously few functions: %d' % len(sig_rows))
    t = HEADER + 'From Coq Require Import List String ZArith.\nFrom ME Require Import Model.DefaultsSpec.\nImport ListNotations.\nOpen Scope string_scope.\n'
    t += '(* default values written in the signatures *)\nDefinition signature_defaults : list (string * list (string * dconst)) :=\n [ %s ].\n' % ';\n   '.join(sig_rows)
    t += '(* default values stated in the numpydoc docstrings ("(Default value = x)", "Default is x") *)\n'
    t += 'Definition docstring_defaults : list (string * list (string * dconst)) :=\n [ %s ].\n' % ';\n   '.join(doc_rows)
    return {'Defaults.v': t}
