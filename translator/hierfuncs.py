"""The internals of mir_eval/hierarchy.py -> coq/Gen/HierGen.v
(function bodies as programs of the Python / NumPy / SciPy sub-language of coq/Model/HierExp.v).

  _round, _hierarchy_bounds, _count_inversions, _compare_frame_rankings, _gauc, _lca

This file maps syntax only (Python ast; mir_eval is never imported; anything outside the fragment raises
TranslationError). What an operator / builtin / library function does on each type of value is defined by the evaluator
of Model/HierExp.v; Proofs/HierTie*.v prove every generated program equal to the hand-written model function of
Model/Hierarchy.v, with the callees instantiated by the model's functions.

Accepted fragment
  def          positional-or-keyword parameters, defaults = literal (None / bool / int / float / str); no decorator,
               *args, **kwargs, nested def.
  statements   x = e | x1, ..., xk = e | x op= e (op: + - * /) | x[i] = e | x.append(e) |
               if / elif / else | for <name or tuple of names, one level of nesting> in e: (no else, no break) |
               while e: (no else, no break) | continue (inside a loop) | return e | raise <Exception>(<literal message>) | pass
               (no statement after a return / raise in the same block)
  expressions  parameters and locals, None / bool / int / float / str literals, -<number literal>, tuples, lists,
               comparisons (== != < <= > >=, `is None`, `is not None`; no chains), not / and / or, + - * /,
               e[i] with i an expression, `lo:hi` (no step) or a tuple of expressions,
               [body for <name or tuple of names> in e (if c)* ...],
               len float int min max sum list range enumerate zip slice with positional arguments,
               itertools.chain(*e), itertools.combinations(e, 2), itertools.tee(e),
               collections.defaultdict(lambda: c) with c an int literal or slice(<int literal>),
               np.argsort np.unique np.sum np.concatenate np.mod np.asarray scipy.sparse.lil_matrix (positional and
               keyword arguments as written; int / float / np.uint8 as dtype values),
               e.shape, e.toarray(), e.tocsr(), e.ravel(), e.astype(int), e.any(), np.array_equal, np.equal.outer, np.triu,
               np.where, scipy.sparse.csr_matrix, zip(*e), slice(*e), util.index_labels (opaque),
               calls of the functions of FUNCS (opaque, arguments as written: positional and keyword).
What this file decides itself
  * which names are locals (Python's rule); that every function translated or called has exactly one top-level def and is
    not rebound; that `np`, `itertools`, `collections`, `scipy` are the library modules (bound exactly once by the expected
    import, never written); that the builtins used are not shadowed;
  * the aliasing side condition of in-place writes: x[i] = e and x.append(e) are accepted only if every binding of x
    creates a fresh object and x reaches no other name, container or callee (x may be returned, and may be read by
    indexing / len / method calls that copy);
  * one-shot iterators: a name bound to the result of itertools.chain / combinations / tee or zip is consumed at most once
    between two bindings (all its mentions are top-level statements of the function, binding and consumption alternate);
  * defaultdict: a name bound to collections.defaultdict(...) is mentioned only as d[k] and d[k] = v;
  * a for loop's iterable must not mention a name written in its body;
  * the message of a raise: a literal is dropped.
"""
import ast
import re
from fractions import Fraction
from .common import module, top_func, codes, TranslationError, HEADER

OUTPUTS = ['HierGen.v']

FUNCS = ['_round', '_hierarchy_bounds', '_count_inversions', '_compare_frame_rankings', '_gauc', '_lca', '_meet']
UTIL_CALLEES = ['index_labels']                   # util.<name>: opaque callees, signature read from util.py
BUILTINS = {'len': (1, 1), 'float': (1, 1), 'int': (1, 1), 'min': (1, 2), 'max': (1, 2), 'sum': (1, 1), 'list': (1, 1),
            'range': (1, 1), 'enumerate': (1, 2), 'zip': (1, 8), 'slice': (1, 2)}      # name: (min, max) positional arguments
TYPES = {'int', 'float', 'np.uint8'}
LIBFUNCS = {'np.argsort', 'np.unique', 'np.sum', 'np.concatenate', 'np.mod', 'np.asarray', 'scipy.sparse.lil_matrix',
            'itertools.combinations', 'itertools.tee', 'np.equal.outer', 'np.triu', 'np.where', 'scipy.sparse.csr_matrix',
            'np.array_equal'}
LIB_FRESH = LIBFUNCS - {'np.asarray', 'itertools.tee'}               # results that no other reference can reach
METHODS = {'toarray': 0, 'tocsr': 0, 'ravel': 0, 'astype': 1, 'any': 0}         # name: number of positional arguments
ATTRS = {'shape'}
ITER_PRODUCERS = {'itertools.chain', 'itertools.combinations', 'itertools.tee', 'zip'}
COPYING = set(BUILTINS) | {'np.argsort', 'np.unique', 'np.sum', 'np.concatenate', 'np.mod', 'scipy.sparse.lil_matrix',
                           'np.equal.outer', 'np.triu', 'np.where', 'scipy.sparse.csr_matrix', 'np.array_equal'}       # results never alias their arguments' containers
MUTATING = {'update', 'pop', 'popitem', 'clear', 'setdefault', 'append', 'extend', 'insert', 'remove', 'add', 'discard',
            'sort', 'reverse', 'fill', 'put', 'resize', 'itemset', 'difference_update', 'intersection_update',
            'symmetric_difference_update', '__setitem__', '__delitem__', '__iadd__', '__ior__', 'setdiag', 'eliminate_zeros',
            'sum_duplicates', 'sort_indices'}
EXN = {'ValueError': 'ValueError', 'TypeError': 'TypeError', 'KeyError': 'KeyError', 'IndexError': 'IndexError',
       'ZeroDivisionError': 'ZeroDivisionError'}
CMP = {ast.Eq: 'Eq', ast.NotEq: 'Ne', ast.Lt: 'Lt', ast.LtE: 'Le', ast.Gt: 'Gt', ast.GtE: 'Ge'}
BIN = {ast.Add: 'Add', ast.Sub: 'Sub', ast.Mult: 'Mul', ast.Div: 'Div'}
MODULES = {'np', 'itertools', 'collections', 'scipy', 'util', 'warnings'}
RESERVED = set(BUILTINS) | {'int', 'float', 'bool'} | MODULES | {'True', 'False', 'None', 'super', 'Exception'} | set(EXN)
NAME_RE = re.compile(r'^[A-Za-z_.][A-Za-z0-9_*]*(\.[A-Za-z_][A-Za-z0-9_*]*)*$')
SCOPES = (ast.FunctionDef, ast.AsyncFunctionDef, ast.Lambda, ast.ClassDef)


def fail(msg, node=None):
    where = ''
    if node is not None:
        where = ' at line %s: %s' % (getattr(node, 'lineno', '?'), ast.unparse(node)[:160])
    raise TranslationError('hierfuncs: ' + msg + where)


def cstr(s):
    if not (isinstance(s, str) and s.isascii() and NAME_RE.match(s)):
        fail('unusual name %r' % (s,))
    return '"%s"' % s


def cz(n):
    if isinstance(n, bool) or not isinstance(n, int) or abs(n) >= 2 ** 62:
        fail('unsupported integer literal %r' % (n,))
    return '(%d)%%Z' % n


def cq(x):
    """the exact binary value of a float literal"""
    if not isinstance(x, float) or x != x or x in (float('inf'), float('-inf')):
        fail('unsupported float literal %r' % (x,))
    f = Fraction(x)
    if abs(f.numerator) >= 2 ** 200 or f.denominator >= 2 ** 200:
        fail('float literal %r needs too many digits' % (x,))
    return '((%d)#%d)%%Q' % (f.numerator, f.denominator)


def clist(items):
    return '[' + '; '.join(items) + ']'


def walk_shallow(node):
    """ast.walk that does not enter nested scopes (nested defs, lambdas, classes)."""
    todo = list(ast.iter_child_nodes(node))
    while todo:
        n = todo.pop()
        yield n
        if not isinstance(n, SCOPES):
            todo.extend(ast.iter_child_nodes(n))


def base_name(n):
    while isinstance(n, (ast.Subscript, ast.Attribute)):
        n = n.value
    return n.id if isinstance(n, ast.Name) else None


# ----------------------------------------------------------------------------- module-level checks
def check_module(tree):
    """Everything the reading of names relies on. Fail-closed."""
    tops = {}
    for n in tree.body:
        if isinstance(n, (ast.FunctionDef, ast.ClassDef, ast.AsyncFunctionDef)):
            tops.setdefault(n.name, []).append(n)
        elif isinstance(n, (ast.Import, ast.ImportFrom)):
            for a in n.names:
                tops.setdefault((a.asname or a.name).split('.')[0], []).append(n)
        elif isinstance(n, (ast.Assign, ast.AugAssign, ast.AnnAssign)):
            for t in (n.targets if isinstance(n, ast.Assign) else [n.target]):
                for m in ast.walk(t):
                    if isinstance(m, ast.Name):
                        tops.setdefault(m.id, []).append(n)
        elif isinstance(n, ast.Expr) and isinstance(n.value, ast.Constant):
            pass
        else:
            fail('module-level statement other than def / import / assignment / docstring (names may be rebound)', n)

    def plain_import(name, modname, asname):
        b = tops.get(name, [])
        ok = [n for n in b if isinstance(n, ast.Import) and len(n.names) == 1
              and n.names[0].name == modname and n.names[0].asname == asname]
        if len(b) != 1 or len(ok) != 1:
            fail('`%s` is not bound exactly once by `import %s%s`' % (name, modname, ' as ' + asname if asname else ''))
    plain_import('np', 'numpy', 'np')
    plain_import('itertools', 'itertools', None)
    plain_import('collections', 'collections', None)
    plain_import('scipy', 'scipy.sparse', None)
    ut = tops.get('util', [])
    if len(ut) != 1 or not (isinstance(ut[0], ast.ImportFrom) and ut[0].level == 1 and ut[0].module is None
                            and len(ut[0].names) == 1 and ut[0].names[0].name == 'util' and ut[0].names[0].asname is None):
        fail('`util` is not bound exactly once by `from . import util`')
    for b in list(BUILTINS) + ['int', 'float', 'bool', 'super', 'Exception'] + sorted(EXN):
        if b in tops:
            fail('builtin %r is rebound at module level' % b)
    for f in FUNCS:
        if len(tops.get(f, [])) != 1 or not isinstance(tops[f][0], ast.FunctionDef) or tops[f][0].decorator_list:
            fail('%s is not bound exactly once, by an undecorated top-level def' % f)
    watched = set(FUNCS) | {'np', 'itertools', 'collections', 'scipy', 'util'}
    for n in ast.walk(tree):
        if isinstance(n, (ast.Global, ast.Nonlocal)):
            fail('global / nonlocal declaration', n)
        if isinstance(n, ast.Name) and n.id in watched and isinstance(n.ctx, (ast.Store, ast.Del)):
            fail('second binding of the name %s' % n.id, n)
        if isinstance(n, (ast.FunctionDef, ast.ClassDef, ast.AsyncFunctionDef)) and n.name in watched \
                and not any(n is t for t in tops.get(n.name, [])):
            fail('second definition of the name %s' % n.name, n)
        if isinstance(n, (ast.arg,)) and n.arg in watched:
            fail('parameter named like a watched name %s' % n.arg, n)
        if isinstance(n, (ast.Subscript, ast.Attribute)) and isinstance(n.ctx, (ast.Store, ast.Del)) and base_name(n) in watched:
            fail('write into %s' % base_name(n), n)
        if isinstance(n, ast.AugAssign) and base_name(n.target) in watched:
            fail('augmented assignment to %s' % base_name(n.target), n)
        if isinstance(n, (ast.Import, ast.ImportFrom)) and not any(n is t for t in tree.body):
            fail('import inside a function', n)


def check_util(tree):
    for f in UTIL_CALLEES:
        found = [n for n in tree.body if isinstance(n, ast.FunctionDef) and n.name == f]
        if len(found) != 1 or found[0].decorator_list:
            fail('util.%s is not bound exactly once, by an undecorated top-level def' % f)
        for n in ast.walk(tree):
            if isinstance(n, ast.Name) and n.id == f and isinstance(n.ctx, (ast.Store, ast.Del)):
                fail('util.%s is rebound' % f, n)
            if isinstance(n, (ast.Global, ast.Nonlocal)) and f in n.names:
                fail('util.%s is declared global' % f, n)


def signature(node, who):
    a = node.args
    if node.decorator_list or a.posonlyargs or a.kwonlyargs or a.vararg or a.kwarg or node.returns is not None:
        fail('%s: unexpected signature or decorator' % who, node)
    params = [x.arg for x in a.args]
    if any(x.annotation is not None for x in a.args):
        fail('%s: annotated parameter' % who, node)
    if len(set(params)) != len(params):
        fail('%s: duplicate parameter' % who, node)
    defaults = [None] * (len(params) - len(a.defaults)) + list(a.defaults)
    return params, defaults


def const_exp(d, who):
    """default values: literals"""
    if isinstance(d, ast.Constant):
        c = d.value
        if c is None:
            return 'ENone'
        if isinstance(c, bool):
            return '(EBool %s)' % ('true' if c else 'false')
        if isinstance(c, int):
            return '(EInt %s)' % cz(c)
        if isinstance(c, float):
            return '(EFloat %s)' % cq(c)
        if isinstance(c, str):
            return '(EStr %s%%nat)' % codes(c)
    fail('%s: default that is not a literal' % who, d)


def params_coq(params, defaults, who):
    ps = []
    for p, d in zip(params, defaults):
        if not (p.isidentifier() and p.isascii()):
            fail('%s: unusual parameter name' % who)
        ps.append('(%s, %s)' % (cstr(p), 'None' if d is None else 'Some %s' % const_exp(d, who)))
    return clist(ps)


def is_ddict_call(e):
    return isinstance(e, ast.Call) and ast.unparse(e.func) == 'collections.defaultdict'


def iter_producer(e):
    return isinstance(e, ast.Call) and ast.unparse(e.func) in ITER_PRODUCERS


# ----------------------------------------------------------------------------- one function
class Fn:
    def __init__(self, node, qual):
        self.node = node
        self.name = qual
        self.params, self.defaults = signature(node, qual)
        lambdas_ok = set()
        starred_ok = set()
        for sub in ast.walk(node):
            if is_ddict_call(sub) and len(sub.args) == 1 and isinstance(sub.args[0], ast.Lambda):
                lambdas_ok.add(id(sub.args[0]))
            if isinstance(sub, ast.Call) and ast.unparse(sub.func) in ('itertools.chain', 'zip', 'slice') and len(sub.args) == 1 \
                    and isinstance(sub.args[0], ast.Starred) and not sub.keywords:
                starred_ok.add(id(sub.args[0]))
        for sub in ast.walk(node):
            if sub is node:
                continue
            if isinstance(sub, SCOPES) and id(sub) not in lambdas_ok:
                fail('%s: nested scope' % qual, sub)
            if isinstance(sub, ast.Starred) and id(sub) not in starred_ok:
                fail('%s: starred expression outside itertools.chain(*e) / zip(*e) / slice(*e)' % qual, sub)
            if isinstance(sub, (ast.Global, ast.Nonlocal, ast.NamedExpr, ast.Await, ast.Yield, ast.YieldFrom,
                                ast.Try, ast.With, ast.Delete, ast.Import, ast.ImportFrom, ast.SetComp,
                                ast.DictComp, ast.GeneratorExp, ast.AnnAssign, ast.JoinedStr, ast.Set, ast.Dict,
                                ast.IfExp, ast.Assert, ast.Break,
                                ast.Match if hasattr(ast, 'Match') else ast.Try)):
                fail('%s: unsupported construct %s' % (qual, type(sub).__name__), sub)
        # locals: every name stored in this scope outside comprehensions (comprehension targets live in their own scope)
        comp_targets = set()
        for sub in walk_shallow(node):
            if isinstance(sub, ast.ListComp):
                for g in sub.generators:
                    for m in ast.walk(g.target):
                        comp_targets.add(id(m))
        self.locals = []
        for sub in walk_shallow(node):
            if isinstance(sub, ast.Name) and isinstance(sub.ctx, ast.Store) and id(sub) not in comp_targets:
                if sub.id not in self.params and sub.id not in self.locals:
                    self.locals.append(sub.id)
        self.locals.sort(key=lambda x: min((m.lineno, m.col_offset) for m in walk_shallow(node)
                                           if isinstance(m, ast.Name) and m.id == x and isinstance(m.ctx, ast.Store)
                                           and id(m) not in comp_targets))
        self.synthetic = {}
        for sub in walk_shallow(node):
            if isinstance(sub, ast.For) and isinstance(sub.target, ast.Tuple):
                for k, m in enumerate(sub.target.elts):
                    if isinstance(m, ast.Tuple):
                        name = '_unpacked_%d' % (len(self.synthetic) + 1)
                        if any(isinstance(z, ast.Name) and z.id == name for z in ast.walk(node)) or name in self.params:
                            fail('%s: the name %s is taken' % (qual, name), sub)
                        self.synthetic[(id(sub), k)] = name
                        self.locals.append(name)
        for x in self.params + self.locals:
            if not (x.isidentifier() and x.isascii()) or x in RESERVED or x in FUNCS:
                fail('%s: the local name %r shadows a name this translator gives a fixed meaning' % (qual, x), node)
        body = list(node.body)
        if body and isinstance(body[0], ast.Expr) and isinstance(body[0].value, ast.Constant) \
                and isinstance(body[0].value.value, str):
            body = body[1:]
        self.body = body
        self.analyse()
        self.check_iterators()
        self.check_ddicts()

    # ---- aliasing analysis (flow-insensitive) ----
    def expr_fresh(self, e):
        """e evaluates to an object no other reference can reach (or to an immutable value)."""
        if isinstance(e, ast.Constant):
            return True
        if isinstance(e, (ast.BinOp, ast.Compare, ast.UnaryOp)):
            return True
        if isinstance(e, (ast.List, ast.Tuple, ast.ListComp)):
            return True                      # a new container (its elements may be shared; nested writes are not accepted)
        if isinstance(e, ast.BoolOp):
            return all(self.expr_fresh(v) for v in e.values)
        if isinstance(e, ast.Name):
            return e.id in self.fresh_names
        if isinstance(e, ast.Call):
            f = e.func
            full = ast.unparse(f)
            if isinstance(f, ast.Name):
                return f.id in BUILTINS      # list(x) copies; len / float / ... return immutable values
            if full in LIB_FRESH or full == 'collections.defaultdict':
                return True
            return False
        return False

    def escaping(self, e):
        """names whose object may be reachable from the value of e or be retained by what e calls."""
        if isinstance(e, ast.Name):
            return {e.id}
        if isinstance(e, (ast.Tuple, ast.List)):
            return set().union(*[self.escaping(x) for x in e.elts]) if e.elts else set()
        if isinstance(e, ast.BoolOp):
            return set().union(*[self.escaping(x) for x in e.values])
        if isinstance(e, ast.Starred):
            return self.escaping(e.value)
        if isinstance(e, ast.Subscript):
            # x[i] with i an integer / a slice of a list or an ndarray: a scalar, a copy or a view. The written names of this
            # fragment are lists of scalars, defaultdicts of immutables and sparse matrices (indexing copies): nothing of x
            # that can be written through is reachable from the result.
            return set()
        if isinstance(e, ast.Attribute):
            return set() if e.attr in ATTRS else self.escaping(e.value)
        if isinstance(e, ast.ListComp):
            return self.escaping(e.elt) | set().union(*[self.escaping(g.iter) for g in e.generators])
        if isinstance(e, ast.Call):
            full = ast.unparse(e.func)
            if full in COPYING:
                return set()
            if isinstance(e.func, ast.Attribute) and e.func.attr in METHODS and full not in LIBFUNCS:
                return set() if e.func.attr in ('toarray', 'tocsr', 'astype', 'any') else self.escaping(e.func.value)
            args = list(e.args) + [k.value for k in e.keywords]
            return set().union(*[self.escaping(x) for x in args]) if args else set()
        return set()           # constants, arithmetic, comparisons, not: new or immutable objects

    def analyse(self):
        node = self.node
        bindings = {x: [] for x in self.locals}
        for x in self.params:
            bindings[x] = [None]          # the caller's object
        self.written = set()          # names that are the target of an in-place write
        alias_sites = []              # (expression whose value is stored / passed on, target name or None, statement)
        for sub in walk_shallow(node):
            if isinstance(sub, ast.Assign):
                t = sub.targets[0] if len(sub.targets) == 1 else None
                if isinstance(t, ast.Name):
                    bindings[t.id].append(sub.value)
                    alias_sites.append((sub.value, t.id, sub))
                elif isinstance(t, ast.Tuple):
                    # the components of the tuple np.unique returns are new arrays
                    comp_fresh = isinstance(sub.value, ast.Call) and ast.unparse(sub.value.func) == 'np.unique'
                    for m in t.elts:
                        if isinstance(m, ast.Name):
                            bindings[m.id].append(ast.Constant(None) if comp_fresh else None)
                    alias_sites.append((sub.value, None, sub))
                elif isinstance(t, ast.Subscript) and isinstance(t.value, ast.Name):
                    self.written.add(t.value.id)
                    alias_sites.append((sub.value, None, sub))
            elif isinstance(sub, ast.For):
                for m in ast.walk(sub.target):
                    if isinstance(m, ast.Name):
                        bindings[m.id].append(None)
            elif isinstance(sub, ast.Call):
                f = sub.func
                if isinstance(f, ast.Attribute) and f.attr in MUTATING and isinstance(f.value, ast.Name):
                    self.written.add(f.value.id)
                if ast.unparse(f) not in COPYING:
                    for x in list(sub.args) + [k.value for k in sub.keywords]:
                        alias_sites.append((x, None, sub))
        self.fresh_names = {x for x in self.locals if bindings[x]}
        changed = True
        while changed:
            changed = False
            for x in sorted(self.fresh_names):
                if not all(b is not None and self.expr_fresh(b) for b in bindings[x]):
                    self.fresh_names.discard(x)
                    changed = True
        self.leaked = set()
        for e, target, st in alias_sites:
            for x in self.escaping(e):
                if x == target and self.expr_fresh(e) and not isinstance(e, ast.Name):
                    continue
                self.leaked.add(x)
        self.bindings = bindings

    def unshared(self, x):
        return x in self.fresh_names and x not in self.leaked

    # ---- one-shot iterators ----
    def check_iterators(self):
        """A name one of whose bindings is an iterator: all mentions are in top-level statements of the function (an `if`
        whose branches only bind it counts as a binding), and in statement order a consumption follows a binding."""
        iters = set()
        for sub in walk_shallow(self.node):
            if isinstance(sub, ast.Assign) and len(sub.targets) == 1:
                t = sub.targets[0]
                if isinstance(t, ast.Name) and iter_producer(sub.value):
                    iters.add(t.id)
                if isinstance(t, ast.Tuple) and iter_producer(sub.value):
                    for m in t.elts:
                        if isinstance(m, ast.Name):
                            iters.add(m.id)
            if isinstance(sub, ast.Call):
                # an iterator created inside an expression must be consumed on the spot by list() / a for loop / zip
                pass
        for x in sorted(iters):
            state = 'unbound'
            for s in self.body:
                loads = [m for m in ast.walk(s) if isinstance(m, ast.Name) and m.id == x and isinstance(m.ctx, ast.Load)]
                stores = [m for m in ast.walk(s) if isinstance(m, ast.Name) and m.id == x and isinstance(m.ctx, ast.Store)]
                if loads:
                    if len(loads) > 1 or state != 'fresh':
                        fail('%s: the iterator %r may be consumed twice' % (self.name, x), s)
                    m = loads[0]
                    ok = False
                    if isinstance(s, ast.For) and s.iter is m:
                        ok = True                                  # for ... in x:
                    if isinstance(s, ast.Assign):
                        v = s.value
                        if isinstance(v, ast.Call) and ast.unparse(v.func) in ('itertools.tee', 'list') and len(v.args) == 1 \
                                and v.args[0] is m:
                            ok = True                              # a, b = itertools.tee(x) / y = list(x)
                        for c in ast.walk(v):
                            if isinstance(c, ast.ListComp) and len(c.generators) == 1 and c.generators[0].iter is m:
                                inner = [k for k in ast.walk(c) if isinstance(k, ast.ListComp)]
                                outer_comps = [k for k in ast.walk(v) if isinstance(k, ast.ListComp)]
                                if len(inner) == 1 and len(outer_comps) == 1:
                                    ok = True                      # [... for t in x] evaluated once
                    if not ok:
                        fail('%s: unsupported use of the iterator %r' % (self.name, x), s)
                    state = 'consumed'
                if stores:
                    if isinstance(s, ast.Assign):
                        state = 'fresh'
                    elif isinstance(s, ast.If) and all(isinstance(b, ast.Assign) for b in s.body + s.orelse) \
                            and s.body and s.orelse:
                        state = 'fresh'
                    else:
                        fail('%s: the iterator %r is bound inside a compound statement' % (self.name, x), s)

    def check_ddicts(self):
        dd = set()
        for x in self.locals:
            bs = self.bindings[x]
            if any(b is not None and is_ddict_call(b) for b in bs):
                if not all(b is not None and is_ddict_call(b) for b in bs):
                    fail('%s: %r is bound to a defaultdict and to something else' % (self.name, x))
                dd.add(x)
        parents = {}
        for sub in walk_shallow(self.node):
            for c in ast.iter_child_nodes(sub):
                parents[id(c)] = sub
        for sub in walk_shallow(self.node):
            if isinstance(sub, ast.Name) and sub.id in dd:
                p = parents.get(id(sub))
                if isinstance(sub.ctx, ast.Store) and isinstance(p, ast.Assign):
                    continue
                if isinstance(p, ast.Subscript) and p.value is sub:
                    continue
                fail('%s: the defaultdict %r is used other than as d[k]' % (self.name, sub.id), sub)
        self.ddicts = dd

    # ---- expressions ----
    def is_local(self, x, comp):
        return x in comp or x in self.params or x in self.locals

    def ex(self, n, comp=()):
        if isinstance(n, ast.Constant):
            c = n.value
            if c is None:
                return 'ENone'
            if isinstance(c, bool):
                return '(EBool %s)' % ('true' if c else 'false')
            if isinstance(c, int):
                return '(EInt %s)' % cz(c)
            if isinstance(c, float):
                return '(EFloat %s)' % cq(c)
            if isinstance(c, str):
                return '(EStr %s%%nat)' % codes(c)
            fail('unsupported literal', n)
        if isinstance(n, ast.Name):
            if not isinstance(n.ctx, ast.Load):
                fail('unexpected store', n)
            if self.is_local(n.id, comp):
                return '(ELoc %s)' % cstr(n.id)
            if n.id in ('int', 'float'):
                return '(ETy %s)' % cstr(n.id)
            fail('name %r is not a parameter or a local' % n.id, n)
        if isinstance(n, ast.Attribute):
            full = ast.unparse(n)
            if full in TYPES:
                return '(ETy %s)' % cstr(full)
            if n.attr in ATTRS:
                return '(EBuiltin %s [%s] [])' % (cstr('.' + n.attr), self.ex(n.value, comp))
            fail('unsupported attribute', n)
        if isinstance(n, ast.Tuple):
            return '(ETuple %s)' % clist([self.ex(x, comp) for x in n.elts])
        if isinstance(n, ast.List):
            return '(EList %s)' % clist([self.ex(x, comp) for x in n.elts])
        if isinstance(n, ast.UnaryOp):
            if isinstance(n.op, ast.Not):
                return '(ENot %s)' % self.ex(n.operand, comp)
            if isinstance(n.op, ast.USub) and isinstance(n.operand, ast.Constant) and not isinstance(n.operand.value, bool):
                if isinstance(n.operand.value, int):
                    return '(EInt %s)' % cz(-n.operand.value)
                if isinstance(n.operand.value, float):
                    return '(EFloat %s)' % cq(-n.operand.value)
            fail('unsupported unary operator', n)
        if isinstance(n, ast.BoolOp):
            comb = 'EAnd' if isinstance(n.op, ast.And) else 'EOr'
            parts = [self.ex(x, comp) for x in n.values]
            out = parts[-1]
            for p in reversed(parts[:-1]):
                out = '(%s %s %s)' % (comb, p, out)
            return out
        if isinstance(n, ast.Compare):
            if len(n.ops) != 1:
                fail('chained comparison', n)
            op, a, b = n.ops[0], n.left, n.comparators[0]
            if isinstance(op, (ast.Is, ast.IsNot)):
                if not (isinstance(b, ast.Constant) and b.value is None):
                    fail('`is` with something other than None', n)
                r = '(EIsNone %s)' % self.ex(a, comp)
                return r if isinstance(op, ast.Is) else '(ENot %s)' % r
            if type(op) in CMP:
                return '(ECmp %s %s %s)' % (CMP[type(op)], self.ex(a, comp), self.ex(b, comp))
            fail('unsupported comparison', n)
        if isinstance(n, ast.BinOp):
            if type(n.op) not in BIN:
                fail('unsupported binary operator', n)
            return '(EBin %s %s %s)' % (BIN[type(n.op)], self.ex(n.left, comp), self.ex(n.right, comp))
        if isinstance(n, ast.Subscript):
            if not isinstance(n.ctx, ast.Load):
                fail('unexpected store', n)
            return '(EIndex %s %s)' % (self.ex(n.value, comp), self.index(n.slice, comp))
        if isinstance(n, ast.ListComp):
            gens = []
            inner = comp
            for g in n.generators:
                if g.is_async:
                    fail('async comprehension', n)
                if isinstance(g.target, ast.Name):
                    xs = [g.target.id]
                elif isinstance(g.target, ast.Tuple) and len(g.target.elts) >= 2 \
                        and all(isinstance(m, ast.Name) for m in g.target.elts) \
                        and len({m.id for m in g.target.elts}) == len(g.target.elts):
                    xs = [m.id for m in g.target.elts]
                else:
                    fail('unsupported comprehension target', n)
                for x in xs:
                    if not (x.isidentifier() and x.isascii()) or x in RESERVED or x in FUNCS:
                        fail('unusual comprehension variable', n)
                it = self.ex(g.iter, inner)
                inner = inner + tuple(xs)
                conds = [self.ex(c, inner) for c in g.ifs]
                gens.append('(%s, %s, %s)' % (clist([cstr(x) for x in xs]), it, clist(conds)))
            return '(EComp %s %s)' % (self.ex(n.elt, inner), clist(gens))
        if isinstance(n, ast.Call):
            return self.call(n, comp)
        fail('expression outside the accepted fragment', n)

    def index(self, s, comp, top=True):
        if isinstance(s, ast.Slice):
            if s.step is not None:
                fail('slice with a step', s)
            lo = 'None' if s.lower is None else '(Some %s)' % self.ex(s.lower, comp)
            hi = 'None' if s.upper is None else '(Some %s)' % self.ex(s.upper, comp)
            return '(ESlice %s %s)' % (lo, hi)
        if top and isinstance(s, ast.Tuple):
            return '(ETuple %s)' % clist([self.index(x, comp, top=False) for x in s.elts])
        return self.ex(s, comp)

    def kwargs(self, n, comp):
        kws = []
        for k in n.keywords:
            if k.arg is None:
                fail('**kwargs in a call', n)
            kws.append('(%s, %s)' % (cstr(k.arg), self.ex(k.value, comp)))
        return clist(kws)

    def call(self, n, comp):
        f = n.func
        full = ast.unparse(f)
        if full == 'itertools.chain':
            if len(n.args) != 1 or not isinstance(n.args[0], ast.Starred) or n.keywords:
                fail('itertools.chain other than chain(*e)', n)
            return '(EBuiltin %s [%s] [])' % (cstr('itertools.chain*'), self.ex(n.args[0].value, comp))
        if full in ('zip', 'slice') and len(n.args) == 1 and isinstance(n.args[0], ast.Starred) and not n.keywords \
                and not self.is_local(full, comp):
            return '(EBuiltin %s [%s] [])' % (cstr(full + '*'), self.ex(n.args[0].value, comp))
        if full == 'collections.defaultdict':
            if len(n.args) != 1 or n.keywords or not isinstance(n.args[0], ast.Lambda):
                fail('defaultdict other than defaultdict(lambda: c)', n)
            lam = n.args[0]
            a = lam.args
            if a.args or a.posonlyargs or a.kwonlyargs or a.vararg or a.kwarg:
                fail('default factory with parameters', n)
            b = lam.body
            if isinstance(b, ast.Constant) and isinstance(b.value, int) and not isinstance(b.value, bool):
                c = self.ex(b, ())
            elif isinstance(b, ast.Call) and isinstance(b.func, ast.Name) and b.func.id == 'slice' and len(b.args) == 1 \
                    and not b.keywords and isinstance(b.args[0], ast.Constant) and isinstance(b.args[0].value, int) \
                    and not isinstance(b.args[0].value, bool) and not self.is_local('slice', comp):
                c = self.ex(b, ())
            else:
                fail('default factory whose value is not an int literal or slice(<int literal>)', n)
            return '(EBuiltin %s [%s] [])' % (cstr('collections.defaultdict'), c)
        pos = [self.ex(x, comp) for x in n.args]
        if isinstance(f, ast.Name):
            if self.is_local(f.id, comp):
                fail('call of a local', n)
            if f.id in BUILTINS:
                lo, hi = BUILTINS[f.id]
                if n.keywords or not lo <= len(pos) <= hi:
                    fail('builtin %s with unexpected arguments' % f.id, n)
                return '(EBuiltin %s %s [])' % (cstr(f.id), clist(pos))
            if f.id in FUNCS:
                return '(ECall %s %s %s)' % (cstr(f.id), clist(pos), self.kwargs(n, comp))
            fail('call of an unknown function %r' % f.id, n)
        if isinstance(f, ast.Attribute):
            if full in LIBFUNCS:
                return '(EBuiltin %s %s %s)' % (cstr(full), clist(pos), self.kwargs(n, comp))
            if isinstance(f.value, ast.Name) and f.value.id == 'util' and f.attr in UTIL_CALLEES \
                    and not self.is_local('util', comp):
                return '(ECall %s %s %s)' % (cstr(full), clist(pos), self.kwargs(n, comp))
            if f.attr in METHODS and base_name(f) not in MODULES:
                if n.keywords or len(pos) != METHODS[f.attr]:
                    fail('method %s with unexpected arguments' % f.attr, n)
                return '(EBuiltin %s %s [])' % (cstr('.' + f.attr), clist([self.ex(f.value, comp)] + pos))
            fail('unsupported library or method call %s' % full, n)
        fail('unsupported call', n)

    # ---- statements ----
    def written_in(self, stmts):
        out = set()
        for s in stmts:
            for sub in ast.walk(s):
                if isinstance(sub, ast.Name) and isinstance(sub.ctx, ast.Store):
                    out.add(sub.id)
                if isinstance(sub, ast.Subscript) and isinstance(sub.ctx, ast.Store) and isinstance(sub.value, ast.Name):
                    out.add(sub.value.id)
                if isinstance(sub, ast.Call) and isinstance(sub.func, ast.Attribute) and sub.func.attr in MUTATING \
                        and isinstance(sub.func.value, ast.Name):
                    out.add(sub.func.value.id)
        return out

    def block(self, stmts, ind, loop=False):
        out = []
        for i, s in enumerate(stmts):
            out.extend(self.stmt(s, ind, loop))
            if isinstance(s, (ast.Return, ast.Raise, ast.Continue)) and i + 1 < len(stmts):
                fail('statement after return / raise / continue', stmts[i + 1])
        return out

    def fmt_block(self, items, ind):
        pad = '\n' + '  ' * (ind + 1)
        if not items:
            return '[]'
        return '[' + pad + (';' + pad).join(items) + ']'

    def stmt(self, s, ind, loop=False):
        if isinstance(s, ast.Pass):
            return ['SPass']
        if isinstance(s, ast.Continue):
            if not loop:
                fail('continue outside a loop', s)
            return ['SContinue']
        if isinstance(s, ast.Expr):
            v = s.value
            if isinstance(v, ast.Call) and isinstance(v.func, ast.Attribute) and v.func.attr == 'append' \
                    and isinstance(v.func.value, ast.Name) and len(v.args) == 1 and not v.keywords:
                x = v.func.value.id
                if x not in self.locals:
                    fail('append to something that is not a local', s)
                if not self.unshared(x):
                    fail('in-place append to %r, which may be shared' % x, s)
                return ['SAppend %s %s' % (cstr(x), self.ex(v.args[0]))]
            fail('expression statement that is not x.append(e)', s)
        if isinstance(s, ast.Assign):
            if len(s.targets) != 1:
                fail('chained assignment', s)
            t = s.targets[0]
            if isinstance(t, ast.Name):
                return ['SAssign %s %s' % (cstr(t.id), self.ex(s.value))]
            if isinstance(t, ast.Tuple):
                if len(t.elts) < 2 or not all(isinstance(m, ast.Name) for m in t.elts) \
                        or len({m.id for m in t.elts}) != len(t.elts):
                    fail('unpacking target must be two or more distinct names', s)
                return ['SUnpack %s %s' % (clist([cstr(m.id) for m in t.elts]), self.ex(s.value))]
            if isinstance(t, ast.Subscript) and isinstance(t.value, ast.Name):
                x = t.value.id
                if x not in self.locals:
                    fail('item assignment into something that is not a local', s)
                if not self.unshared(x):
                    fail('in-place write into %r, which may be shared (a binding that is not a fresh object, or the '
                         'name flows elsewhere)' % x, s)
                return ['SSetItem %s %s %s' % (cstr(x), self.index(t.slice, ()), self.ex(s.value))]
            fail('unsupported assignment target', s)
        if isinstance(s, ast.AugAssign):
            if not isinstance(s.target, ast.Name) or type(s.op) not in BIN:
                fail('unsupported augmented assignment', s)
            x = s.target.id
            return ['SAug %s %s %s' % (cstr(x), BIN[type(s.op)], self.ex(s.value))]
        if isinstance(s, ast.If):
            a = self.block(s.body, ind + 1, loop)
            b = self.block(s.orelse, ind + 1, loop)
            return ['SIf %s %s %s' % (self.ex(s.test), self.fmt_block(a, ind + 1), self.fmt_block(b, ind + 1))]
        if isinstance(s, ast.For):
            if s.orelse:
                fail('for ... else', s)
            pre = []
            if isinstance(s.target, ast.Name):
                xs = [s.target.id]
            elif isinstance(s.target, ast.Tuple) and len(s.target.elts) >= 2:
                # a nested tuple target  a, (b, c)  is read as  a, t  followed by  b, c = t  (t a name of the translator)
                xs = []
                for k, m in enumerate(s.target.elts):
                    if isinstance(m, ast.Name):
                        xs.append(m.id)
                    elif isinstance(m, ast.Tuple) and len(m.elts) >= 2 and all(isinstance(z, ast.Name) for z in m.elts):
                        t = self.synthetic[(id(s), k)]
                        xs.append(t)
                        pre.append('SUnpack %s (ELoc %s)' % (clist([cstr(z.id) for z in m.elts]), cstr(t)))
                        xs_inner = [z.id for z in m.elts]
                    else:
                        fail('unsupported loop target', s)
                allnames = [z.id for z in ast.walk(s.target) if isinstance(z, ast.Name)]
                if len(set(allnames)) != len(allnames):
                    fail('repeated name in a loop target', s)
            else:
                fail('unsupported loop target', s)
            used = {m.id for m in ast.walk(s.iter) if isinstance(m, ast.Name)}
            targets = {z.id for z in ast.walk(s.target) if isinstance(z, ast.Name)}
            clash = used & (self.written_in(s.body) | targets)
            if clash:
                fail('the iterable of a loop mentions %s, which the loop writes' % sorted(clash), s)
            body = pre + self.block(s.body, ind + 1, True)
            return ['SFor %s %s %s' % (clist([cstr(x) for x in xs]), self.ex(s.iter), self.fmt_block(body, ind + 1))]
        if isinstance(s, ast.While):
            if s.orelse:
                fail('while ... else', s)
            body = self.block(s.body, ind + 1, True)
            return ['SWhile %s %s' % (self.ex(s.test), self.fmt_block(body, ind + 1))]
        if isinstance(s, ast.Return):
            if s.value is None:
                fail('bare return', s)
            return ['SReturn %s' % self.ex(s.value)]
        if isinstance(s, ast.Raise):
            e = s.exc
            if s.cause is not None or e is None:
                fail('unsupported raise', s)
            if isinstance(e, ast.Name):
                name, args, kws = e.id, [], []
            elif isinstance(e, ast.Call) and isinstance(e.func, ast.Name):
                name, args, kws = e.func.id, e.args, e.keywords
            else:
                fail('unsupported raise', s)
            if name not in EXN or kws or name in self.params + self.locals:
                fail('unsupported exception', s)
            if len(args) > 1 or any(not (isinstance(a, ast.Constant) and isinstance(a.value, str)) for a in args):
                fail('unsupported exception message', s)
            return ['SRaise %s' % EXN[name]]
        fail('statement outside the accepted fragment', s)

    def coq(self):
        body = self.block(self.body, 1)
        return ('{| f_params := %s;\n     f_locals := %s;\n     f_body := %s |}'
                % (params_coq(self.params, self.defaults, self.name), clist([cstr(x) for x in self.locals]),
                   self.fmt_block(body, 2)))


def ident(q):
    return 'gen_' + q.replace('.', '__')


def generate():
    tree = module('hierarchy')
    check_module(tree)
    utree = module('util')
    check_util(utree)
    nodes = {f: top_func(tree, f) for f in FUNCS}
    fns = [(f, Fn(nodes[f], f)) for f in FUNCS]
    prims = []
    for c in UTIL_CALLEES:
        ps, ds = signature(top_func(utree, c), 'util.' + c)
        prims.append(('util.' + c, params_coq(ps, ds, 'util.' + c)))
    t = HEADER
    t += '(* the internals of mir_eval/hierarchy.py as programs of Model/HierExp.v *)\n'
    t += 'From Coq Require Import String.\nFrom Coq Require Import List ZArith QArith.\n'
    t += 'From ME Require Import Model.Prelude Model.HierExp.\nImport ListNotations.\nLocal Open Scope string_scope.\n'
    for q, fn in fns:
        t += '(* hierarchy.%s *)\nDefinition %s : fdef :=\n  %s.\n' % (q, ident(q), fn.coq())
    t += '(* every function with its signature source *)\n'
    t += 'Definition hier_funs : list (string * fdef) :=\n  %s.\n' % clist(['(%s, %s)' % (cstr(q), ident(q)) for q, _ in fns])
    t += '(* the callees that are tied elsewhere, with their signatures as read from util.py *)\n'
    t += 'Definition hier_prims : list (string * list (string * option exp)) :=\n  %s.\n' % clist(
        ['(%s, %s)' % (cstr(k), v) for k, v in prims])
    return {'HierGen.v': t}
