"""mir_eval.chord.CHORD_RE -> coq/Gen/ChordRe.v (regex AST), via Python's own re._parser."""
import ast
import re._parser as P
import re._constants as C
from .common import module, top_assign, TranslationError, HEADER

OUTPUTS = ['ChordRe.v']


def pattern():
    v = top_assign(module('chord'), 'CHORD_RE')
    if not (isinstance(v, ast.Call) and ast.unparse(v.func) == 're.compile' and len(v.args) == 1 and not v.keywords
            and isinstance(v.args[0], ast.Constant) and isinstance(v.args[0].value, str)):
        raise TranslationError('CHORD_RE is not re.compile(<string literal>) without flags')
    return v.args[0].value


def seq(items):
    out = None
    for it in items:
        t = node(it)
        out = t if out is None else '(Cat %s %s)' % (out, t)
    return out or 'Eps'


def alt(ts):
    out = None
    for t in ts:
        out = t if out is None else '(Alt %s %s)' % (out, t)
    return out or 'Emp'


def node(it):
    op, av = it
    if op is C.LITERAL:
        return '(Chr %d)' % av
    if op is C.IN:
        cs = []
        for o, a in av:
            if o is C.LITERAL:
                cs.append(a)
            elif o is C.RANGE:
                cs.extend(range(a[0], a[1] + 1))
            else:
                raise TranslationError('unsupported character class item %s' % (o,))
        return alt(['(Chr %d)' % c for c in cs])
    if op is C.SUBPATTERN:
        if av[1] or av[2]:
            raise TranslationError('inline flags in a group')
        return seq(av[3])
    if op is C.BRANCH:
        return alt([seq(b) for b in av[1]])
    if op is C.MAX_REPEAT:
        lo, hi, sub = av
        s = seq(sub)
        if (lo, hi) == (0, C.MAXREPEAT):
            return '(Star %s)' % s
        if (lo, hi) == (0, 1):
            return '(Alt Eps %s)' % s
        if (lo, hi) == (1, C.MAXREPEAT):
            return '(Cat %s (Star %s))' % (s, s)
        raise TranslationError('unsupported repeat {%s,%s}' % (lo, hi))
    if op is C.AT:
        if av is C.AT_BEGINNING:
            return 'Eps'                       # re.match anchors at the start anyway
        if av is C.AT_END:
            return '(Alt Eps (Chr 10))'        # `$` = at the end, or before one final newline
        if av is C.AT_END_STRING:
            return 'Eps'                       # `\Z` = at the very end
        raise TranslationError('unsupported anchor %s' % (av,))
    raise TranslationError('unsupported regex node %s' % (op,))


def check_anchor_positions(p):
    """`$`/`\\Z` only as the last top-level item, `^` only as the first: otherwise the rendering as
    a plain language is wrong, so refuse."""
    items = list(p)
    def walk(items, top):
        for i, (op, av) in enumerate(items):
            if op is C.AT:
                if not top:
                    raise TranslationError('anchor inside a group')
                if av is C.AT_BEGINNING and i != 0:
                    raise TranslationError('^ not at the start')
                if av in (C.AT_END, C.AT_END_STRING) and i != len(items) - 1:
                    raise TranslationError('$ not at the end')
            elif op is C.SUBPATTERN:
                walk(list(av[3]), False)
            elif op is C.BRANCH:
                for b in av[1]:
                    walk(list(b), False)
            elif op is C.MAX_REPEAT:
                walk(list(av[2]), False)
    walk(items, True)
    if not items or items[-1][0] is not C.AT:
        raise TranslationError('pattern is not anchored at the end (re.match would accept prefixes)')


def generate():
    pat = pattern()
    p = P.parse(pat)
    if p.state.flags & ~(re_flags_default()):
        raise TranslationError('regex flags present')
    check_anchor_positions(p)
    txt = HEADER + 'From ME Require Import Model.Regex.\n'
    txt += '(* chord.CHORD_RE, %d characters, as used by CHORD_RE.match *)\n' % len(pat)
    txt += 'Definition chord_re : re :=\n  %s.\n' % seq(p)
    return {'ChordRe.v': txt}


def re_flags_default():
    import re
    return re.UNICODE
