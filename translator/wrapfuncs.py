"""Wrapper metric functions -> coq/Gen/WrapFuncs.v (programs of the language of coq/Model/WrapExp.v).

  transcription.precision_recall_f1_overlap / onset_precision_recall_f1 / offset_precision_recall_f1
  transcription_velocity.match_notes (its call of transcription.match_notes; the velocity regression after it is
      one opaque call "transcription_velocity.match_notes#tail" of the variables it reads)
  transcription_velocity.precision_recall_f1_overlap
  onset.f_measure, beat.f_measure, segment.detection
  multipitch.metrics: its final assembly only, i.e. the suffix of the body that starts at the first call of
      compute_accuracy (which count vectors reach which score function, the order of the 14 returned values); the
      statements before it are not translated, and the variables the suffix reads from them are its parameters

Second group (table `callee_sigs2`, proofs in Proofs/MoreFuncsTie.v):
  chord.overseg / underseg / seg, util.intervals_to_boundaries / intervals_to_durations / boundaries_to_intervals,
  segment.deviation; here a few NumPy functions are callees too (np.round, np.ravel, np.unique, np.diff, np.abs,
  np.allclose, np.subtract.outer, np.median, x.flatten(), x.min(axis)); their signatures are fixed in NUMPY below.

Every call of a known function is kept AS WRITTEN (positional arguments, keyword arguments by name), and the
signature of every callee (parameter names in order, literal defaults) is read from the source in the same run and
emitted as `callee_sigs`; the binding of arguments to parameters is done in Coq (WrapExp.bind_args), so an argument
that is no longer forwarded, a reordered or a renamed parameter changes the generated text that the proofs read.
Python ast only; mir_eval is never imported; anything outside the fragment raises TranslationError.

Accepted fragment
  statements   x = <expr> | x = <call> | x1, ..., xk = <call> | <call> | if <expr>: <block> [else: <block>] | return <expr> / <tuple>
               raise <BuiltinError>(...) | warnings.warn(<string literal>) (dropped)
  expressions  names, int / float / bool / None literals, len(x), x.size, float(x), a / b, one comparison,
               and / or / not, x[1:-1], x[:-1], x[1:], a - b, min(a, b), np.nan, np.asarray(list(zip(a, b))); a <call> may also occur inside a return expression provided nothing that
               can raise is evaluated before it (it is then bound to a temporary first)
  loops        (second group) for v1, ..., vk in zip(s1, ..., sk): <body> where the body consists of if / else,
               x = <expr>, x1, ..., xm = (e1, ..., em), l.append([a, b]), l[-1][-1] = a; the variables of the
               enclosing scope that the body assigns are the loop state; a[:, 0], a[:, 1], (a != b).any(), [], None,
               np.array(l)
  <call>       f(...) with f a top-level function of the same module, or m.f(...) with m bound by `from . import m`,
               f among CALLEES; arguments: expressions, keyword arguments by name (no * / **)
"""
import ast
from .common import module, top_func, cq_Q, TranslationError, HEADER

OUTPUTS = ['WrapFuncs.v']

# (module, function, Coq name, number of leading statements translated when the rest is an opaque tail)
SPEC = [('transcription', 'precision_recall_f1_overlap', 'gen_tr_precision_recall_f1_overlap', None),
        ('transcription', 'onset_precision_recall_f1', 'gen_tr_onset_precision_recall_f1', None),
        ('transcription', 'offset_precision_recall_f1', 'gen_tr_offset_precision_recall_f1', None),
        ('transcription_velocity', 'match_notes', 'gen_tv_match_notes', 1),
        ('transcription_velocity', 'precision_recall_f1_overlap', 'gen_tv_precision_recall_f1_overlap', None),
        ('onset', 'f_measure', 'gen_onset_f_measure', None),
        ('beat', 'f_measure', 'gen_beat_f_measure', None),
        ('segment', 'detection', 'gen_segment_detection', None),
        ('multipitch', 'metrics', 'gen_mp_metrics_assembly', ('suffix', 'compute_accuracy'))]
SPEC2 = [('chord', 'overseg', 'gen_chord_overseg', None), ('chord', 'underseg', 'gen_chord_underseg', None),
         ('chord', 'seg', 'gen_chord_seg', None),
         ('util', 'intervals_to_boundaries', 'gen_util_intervals_to_boundaries', None),
         ('util', 'intervals_to_durations', 'gen_util_intervals_to_durations', None),
         ('util', 'boundaries_to_intervals', 'gen_util_boundaries_to_intervals', None),
         ('segment', 'deviation', 'gen_segment_deviation', None),
         ('chord', 'merge_chord_intervals', 'gen_chord_merge_chord_intervals', None)]
# the functions that may be called (the same list as WrapExp.callee_names, tails excepted)
CALLEES = [('transcription', 'validate'), ('transcription', 'validate_intervals'), ('transcription', 'match_notes'),
           ('transcription', 'match_note_onsets'), ('transcription', 'match_note_offsets'),
           ('transcription', 'average_overlap_ratio'),
           ('transcription_velocity', 'validate'), ('transcription_velocity', 'match_notes'),
           ('util', 'f_measure'), ('util', 'match_events'), ('util', 'intervals_to_boundaries'),
           ('onset', 'validate'), ('beat', 'validate'), ('segment', 'validate_boundary'),
           ('multipitch', 'compute_accuracy'), ('multipitch', 'compute_err_score')]
CALLEES2 = [('chord', 'directional_hamming_distance'), ('chord', 'overseg'), ('chord', 'underseg'),
            ('util', 'validate_intervals'), ('util', 'intervals_to_boundaries'), ('segment', 'validate_boundary'),
            ('chord', 'encode_many')]
# NumPy functions and array methods used as primitives: (callee name, parameters with literal defaults)
NUMPY = {'np.round': [('a', None), ('decimals', '(WInt (0)%Z)')], 'np.ravel': [('a', None)], 'np.unique': [('ar', None)],
         'np.diff': [('a', None), ('n', '(WInt (1)%Z)'), ('axis', '(WInt (-1)%Z)')], 'np.abs': [('x', None)],
         'np.allclose': [('a', None), ('b', None)], 'np.subtract.outer': [('A', None), ('B', None)],
         'np.median': [('a', None)],
         'ndarray.flatten': [('self', None)], 'ndarray.min': [('self', None), ('axis', 'WNoneE')]}
EXN = {'ValueError', 'TypeError', 'KeyError', 'IndexError', 'ZeroDivisionError'}
CMP = {ast.Eq: 'WEq', ast.NotEq: 'WNe', ast.Lt: 'WLt', ast.LtE: 'WLe', ast.Gt: 'WGt', ast.GtE: 'WGe'}
BUILTINS = {'len', 'float', 'np', 'warnings', 'util', 'transcription'}


def fail(msg, node=None):
    where = ''
    if node is not None:
        where = ' at line %s: %s' % (getattr(node, 'lineno', '?'), ast.unparse(node)[:160])
    raise TranslationError('wrapfuncs: ' + msg + where)


def cstr(s):
    if not (s.isascii() and '"' not in s):
        fail('unusual name %r' % s)
    return '"%s"' % s


def literal(c, node):
    if c is None:
        return 'WNoneE'
    if isinstance(c, bool):
        return '(WBool %s)' % ('true' if c else 'false')
    if isinstance(c, int) and abs(c) < 2 ** 62:
        return '(WInt (%d)%%Z)' % c
    if isinstance(c, float) and c == c and abs(c) < 1e300:
        return '(WFloat %s%%Q)' % cq_Q(c)
    fail('unsupported literal', node)


class Modules:
    """parsed modules, their `from . import m` bindings and top-level functions"""
    def __init__(self):
        self.trees = {}

    def tree(self, mod):
        if mod not in self.trees:
            self.trees[mod] = module(mod)
        return self.trees[mod]

    def submodules(self, mod):
        out = set()
        for n in self.tree(mod).body:
            if isinstance(n, ast.ImportFrom) and n.level == 1 and n.module is None:
                for al in n.names:
                    if al.asname is not None:
                        fail('%s: aliased relative import' % mod, n)
                    out.add(al.name)
        return out

    def has_numpy(self, mod):
        return any(isinstance(n, ast.Import) and any(al.name == 'numpy' and al.asname == 'np' for al in n.names)
                   for n in self.tree(mod).body)

    def check_globals(self, mod):
        """names used to reach callees are not rebound at module level"""
        tree = self.tree(mod)
        watched = self.submodules(mod) | {f for m, f in CALLEES + CALLEES2 if m == mod} | {'np'}
        for n in tree.body:
            targets = n.targets if isinstance(n, ast.Assign) else ([n.target] if isinstance(n, (ast.AugAssign, ast.AnnAssign)) else [])
            for t in targets:
                for x in ast.walk(t):
                    if isinstance(x, ast.Name) and x.id in watched:
                        fail('%s rebinds %s at module level' % (mod, x.id), n)

    def signature(self, mod, fn):
        f = top_func(self.tree(mod), fn)            # exactly one top-level def
        a = f.args
        if f.decorator_list or a.posonlyargs or a.kwonlyargs or a.vararg or a.kwarg:
            fail('%s.%s: signature outside the accepted fragment' % (mod, fn))
        names = [x.arg for x in a.args]
        defaults = [None] * (len(names) - len(a.defaults)) + list(a.defaults)
        out = []
        for nm, d in zip(names, defaults):
            if d is None:
                out.append((nm, None))
            else:
                if isinstance(d, ast.UnaryOp) and isinstance(d.op, ast.USub) and isinstance(d.operand, ast.Constant):
                    v = -d.operand.value
                elif isinstance(d, ast.Constant):
                    v = d.value
                else:
                    fail('%s.%s: non-literal default of %s' % (mod, fn, nm), d)
                out.append((nm, literal(v, d)))
        return out


class Fn:
    def __init__(self, mods, mod, fn, tail_after, callees=None, numpy=False):
        self.mods, self.mod, self.fn, self.tail_after = mods, mod, fn, tail_after
        self.callees = CALLEES if callees is None else callees
        self.numpy = numpy and mods.has_numpy(mod)
        self.params = [a.arg for a in fn.args.args]
        self.scope = list(self.params)
        self.subs = mods.submodules(mod)
        self.pre = []              # statements hoisted out of the expression being translated
        self.impure = False        # something that can raise has been evaluated in the current statement
        self.tmp = 0
        self.tail_sig = None

    def callee(self, f):
        if isinstance(f, ast.Name) and (self.mod, f.id) in self.callees and f.id not in self.scope:
            return self.mod, f.id
        if isinstance(f, ast.Attribute) and isinstance(f.value, ast.Name) and f.value.id in self.subs \
                and f.value.id not in self.scope and (f.value.id, f.attr) in self.callees:
            return f.value.id, f.attr
        if self.numpy and 'np' not in self.scope:
            name = ast.unparse(f)
            if name in NUMPY and name.startswith('np.'):
                return 'np', name[3:]
            if isinstance(f, ast.Attribute) and 'ndarray.' + f.attr in NUMPY \
                    and not (isinstance(f.value, ast.Name) and f.value.id in ('np', 'util', 'warnings')):
                return 'ndarray', f.attr           # a method of an array expression: the receiver is the first argument
        return None

    def call_parts(self, n):
        m, f = self.callee(n.func)
        pos = [self.ex(n.func.value)] if m == 'ndarray' else []
        for a in n.args:
            if isinstance(a, ast.Starred):
                fail('* argument', n)
            pos.append(self.ex(a))
        kws = []
        for k in n.keywords:
            if k.arg is None:
                fail('** argument', n)
            kws.append('(%s, %s)' % (cstr(k.arg), self.ex(k.value)))
        return '%s [%s] [%s]' % (cstr('%s.%s' % (m, f)), '; '.join(pos), '; '.join(kws))

    def ex(self, n):
        if isinstance(n, ast.Constant):
            return literal(n.value, n)
        if isinstance(n, ast.UnaryOp) and isinstance(n.op, ast.USub) and isinstance(n.operand, ast.Constant) \
                and isinstance(n.operand.value, (int, float)) and not isinstance(n.operand.value, bool):
            return literal(-n.operand.value, n)
        if isinstance(n, ast.UnaryOp) and isinstance(n.op, ast.Not):
            return '(WNot %s)' % self.ex(n.operand)
        if isinstance(n, ast.Name):
            if n.id not in self.scope:
                fail('unknown name %r' % n.id, n)
            return '(WVar %s)' % cstr(n.id)
        if isinstance(n, ast.Attribute) and n.attr == 'size':
            return '(WSize %s)' % self.ex(n.value)
        if isinstance(n, ast.List) and not n.elts and self.numpy:
            return 'WEmptyList'
        if isinstance(n, ast.Call) and isinstance(n.func, ast.Attribute) and n.func.attr == 'any' and not n.args and not n.keywords \
                and isinstance(n.func.value, ast.Compare) and len(n.func.value.ops) == 1 and isinstance(n.func.value.ops[0], ast.NotEq) \
                and self.numpy:
            c = n.func.value
            return '(WNeAny %s %s)' % (self.ex(c.left), self.ex(c.comparators[0]))
        if isinstance(n, ast.Call) and ast.unparse(n.func) == 'np.array' and self.numpy and 'np' not in self.scope \
                and len(n.args) == 1 and not n.keywords:
            return '(WAsArray %s)' % self.ex(n.args[0])
        if isinstance(n, ast.Subscript) and isinstance(n.slice, ast.Tuple) and len(n.slice.elts) == 2 and self.numpy:
            a, b = n.slice.elts
            if isinstance(a, ast.Slice) and a.lower is None and a.upper is None and a.step is None \
                    and isinstance(b, ast.Constant) and b.value in (0, 1) and not isinstance(b.value, bool):
                return '(WColumn %s %d%%nat)' % (self.ex(n.value), b.value)
        if isinstance(n, ast.Attribute) and ast.unparse(n) == 'np.nan' and self.numpy and 'np' not in self.scope:
            return 'WNan'
        if isinstance(n, ast.BinOp) and isinstance(n.op, ast.Sub):
            a = self.ex(n.left)
            b = self.ex(n.right)
            return '(WSub %s %s)' % (a, b)
        if isinstance(n, ast.BinOp) and isinstance(n.op, ast.Div):
            a = self.ex(n.left)
            b = self.ex(n.right)
            self.impure = True
            return '(WDiv %s %s)' % (a, b)
        if isinstance(n, ast.Compare):
            if len(n.ops) != 1 or type(n.ops[0]) not in CMP:
                fail('unsupported comparison', n)
            return '(WCmp %s %s %s)' % (CMP[type(n.ops[0])], self.ex(n.left), self.ex(n.comparators[0]))
        if isinstance(n, ast.BoolOp):
            comb = 'WAnd' if isinstance(n.op, ast.And) else 'WOr'
            parts = []
            for i, x in enumerate(n.values):
                if i > 0 and isinstance(x, ast.Call) and self.callee(x.func):
                    fail('a call in a lazily evaluated operand', n)
                parts.append(self.ex(x))
            out = parts[-1]
            for p in reversed(parts[:-1]):
                out = '(%s %s %s)' % (comb, p, out)
            return out
        if isinstance(n, ast.Subscript):
            s = n.slice
            def is_m1(b):
                return (isinstance(b, ast.UnaryOp) and isinstance(b.op, ast.USub) and isinstance(b.operand, ast.Constant)
                        and b.operand.value == 1)
            if isinstance(s, ast.Slice) and s.step is None and s.lower is None and is_m1(s.upper):
                return '(WInit %s)' % self.ex(n.value)
            if isinstance(s, ast.Slice) and s.step is None and s.upper is None and isinstance(s.lower, ast.Constant) and s.lower.value == 1:
                return '(WTail %s)' % self.ex(n.value)
            ok = (isinstance(s, ast.Slice) and s.step is None and isinstance(s.lower, ast.Constant) and s.lower.value == 1
                  and isinstance(s.upper, ast.UnaryOp) and isinstance(s.upper.op, ast.USub)
                  and isinstance(s.upper.operand, ast.Constant) and s.upper.operand.value == 1)
            if not ok:
                fail('only x[1:-1] is accepted', n)
            return '(WTrim %s)' % self.ex(n.value)
        if isinstance(n, ast.Call):
            if self.callee(n.func):
                if self.impure:
                    fail('a call is evaluated after an operation that can raise in the same statement', n)
                parts = self.call_parts(n)
                self.tmp += 1
                t = 'call#%d' % self.tmp
                self.pre.append('SCallLet (Some %s) %s' % (cstr(t), parts))
                self.scope.append(t)
                return '(WVar %s)' % cstr(t)
            name = ast.unparse(n.func)
            if name == 'min' and 'min' not in self.scope and len(n.args) == 2 and not n.keywords:
                a = self.ex(n.args[0])
                b = self.ex(n.args[1])
                return '(WMin %s %s)' % (a, b)
            if name == 'np.asarray' and self.numpy and len(n.args) == 1 and not n.keywords:
                z = n.args[0]
                ok = (isinstance(z, ast.Call) and ast.unparse(z.func) == 'list' and len(z.args) == 1 and not z.keywords
                      and isinstance(z.args[0], ast.Call) and ast.unparse(z.args[0].func) == 'zip'
                      and len(z.args[0].args) == 2 and not z.args[0].keywords and not ({'list', 'zip'} & set(self.scope)))
                if ok:
                    a = self.ex(z.args[0].args[0])
                    b = self.ex(z.args[0].args[1])
                    return '(WPairs %s %s)' % (a, b)
            if name in ('len', 'float') and name not in self.scope and len(n.args) == 1 and not n.keywords:
                return '(%s %s)' % ('WLen' if name == 'len' else 'WPyFloat', self.ex(n.args[0]))
            fail('call outside the accepted fragment', n)
        fail('expression outside the accepted fragment', n)

    def with_pre(self, build):
        """translate one statement; calls met inside its expressions come first"""
        self.pre, self.impure = [], False
        out = build()
        pre, self.pre = self.pre, []
        return pre + out

    def bind(self, x, node):
        if x in BUILTINS or x in self.subs or (self.mod, x) in self.callees or x in ('min', 'list', 'zip') or not (x.isidentifier() and x.isascii()):
            fail('assignment to a reserved or unusual name %r' % x, node)
        if x not in self.scope:
            self.scope.append(x)

    def statement(self, s):
        if isinstance(s, ast.Expr) and isinstance(s.value, ast.Call):
            c = s.value
            if ast.unparse(c.func) == 'warnings.warn':
                if len(c.args) != 1 or c.keywords or not (isinstance(c.args[0], ast.Constant) and isinstance(c.args[0].value, str)):
                    fail('warnings.warn must be given a string literal', s)
                return []
            if self.callee(c.func):
                return self.with_pre(lambda: ['SCallLet None %s' % self.call_parts(c)])
            fail('call statement outside the accepted fragment', s)
        if isinstance(s, ast.Assign) and len(s.targets) == 1 and isinstance(s.targets[0], ast.Tuple):
            t = s.targets[0]
            if not (all(isinstance(e, ast.Name) for e in t.elts) and len(set(e.id for e in t.elts)) == len(t.elts)
                    and isinstance(s.value, ast.Call) and self.callee(s.value.func)):
                fail('a tuple target must unpack the result of a known call into distinct names', s)

            def build():
                parts = self.call_parts(s.value)
                for e in t.elts:
                    self.bind(e.id, s)
                return ['SCallLetN [%s] %s' % ('; '.join(cstr(e.id) for e in t.elts), parts)]
            return self.with_pre(build)
        if isinstance(s, ast.Assign):
            if len(s.targets) != 1 or not isinstance(s.targets[0], ast.Name):
                fail('only  name = <expr>  is accepted', s)
            x = s.targets[0].id
            if isinstance(s.value, ast.Call) and self.callee(s.value.func):
                def build():
                    parts = self.call_parts(s.value)
                    self.bind(x, s)
                    return ['SCallLet (Some %s) %s' % (cstr(x), parts)]
                return self.with_pre(build)

            def build():
                e = self.ex(s.value)
                self.bind(x, s)
                return ['SLet %s %s' % (cstr(x), e)]
            return self.with_pre(build)
        if isinstance(s, ast.If):
            pre = self.with_pre(lambda: [])
            c = self.with_pre(lambda: [self.ex(s.test)])
            cond, hoisted = c[-1], c[:-1]
            return pre + hoisted + ['SIf %s [%s] [%s]' % (cond, '; '.join(self.block(s.body)), '; '.join(self.block(s.orelse)))]
        if isinstance(s, ast.Return):
            if s.value is None:
                fail('bare return', s)
            es = s.value.elts if isinstance(s.value, ast.Tuple) else [s.value]
            return self.with_pre(lambda: ['SReturn [%s]' % '; '.join(self.ex(e) for e in es)])
        if isinstance(s, ast.Raise):
            e = s.exc
            name = e.func.id if isinstance(e, ast.Call) and isinstance(e.func, ast.Name) else None
            if s.cause is not None or name not in EXN or e.keywords or not all(isinstance(a, ast.Constant) for a in e.args):
                fail('unsupported raise', s)
            return ['SRaise %s' % name]
        if isinstance(s, ast.For) and self.numpy:
            return self.loop(s)
        fail('statement outside the accepted fragment', s)

    def loop(self, s):
        it = s.iter
        ok = (not s.orelse and isinstance(it, ast.Call) and ast.unparse(it.func) == 'zip' and not it.keywords and it.args
              and isinstance(s.target, ast.Tuple) and len(s.target.elts) == len(it.args)
              and all(isinstance(e, ast.Name) for e in s.target.elts) and 'zip' not in self.scope)
        if not ok:
            fail('only  for v1, ..., vk in zip(s1, ..., sk)  is accepted', s)
        lvars = [e.id for e in s.target.elts]
        if len(set(lvars)) != len(lvars) or any(v in self.scope for v in lvars):
            fail('loop variables must be distinct new names', s)
        for sub in ast.walk(s):
            if isinstance(sub, (ast.Break, ast.Continue, ast.Return, ast.Raise)) or (isinstance(sub, ast.For) and sub is not s):
                fail('break / continue / return / raise / nested loop inside a loop', sub)
        seqs = self.with_pre(lambda: [self.ex(a) for a in it.args])
        if len(seqs) != len(it.args):
            fail('a call inside the zip arguments', s)
        outer = list(self.scope)
        for v in lvars:
            self.bind(v, s)
        body = self.loop_block(s.body)
        assigned = []
        for sub in ast.walk(ast.Module(body=s.body, type_ignores=[])):
            names = []
            if isinstance(sub, ast.Assign):
                for t in sub.targets:
                    for m in ast.walk(t):
                        if isinstance(m, ast.Name):
                            names.append(m.id)
            elif isinstance(sub, ast.Expr) and isinstance(sub.value, ast.Call) and isinstance(sub.value.func, ast.Attribute) \
                    and isinstance(sub.value.func.value, ast.Name):
                names.append(sub.value.func.value.id)
            for x in names:
                if x in lvars:
                    fail('a loop variable is assigned in the body', sub)
                if x not in outer:
                    fail('the body assigns %r, which is not bound before the loop' % x, sub)
                if x not in assigned:
                    assigned.append(x)
        state = [v for v in outer if v in assigned]           # in the order in which they were bound before the loop
        self.scope = outer                                    # loop variables are not used after the loop
        return ['SFor [%s] [%s] [%s] [%s]' % ('; '.join(cstr(v) for v in lvars), '; '.join(seqs),
                                            '; '.join(cstr(v) for v in state), '; '.join(body))]

    def loop_block(self, stmts):
        out = []
        for st in stmts:
            out.extend(self.loop_statement(st))
        return out

    def loop_statement(self, s):
        if isinstance(s, ast.If):
            c = self.with_pre(lambda: [self.ex(s.test)])
            if len(c) != 1:
                fail('a call in a loop condition', s)
            return ['SIf %s [%s] [%s]' % (c[0], '; '.join(self.loop_block(s.body)), '; '.join(self.loop_block(s.orelse)))]
        if isinstance(s, ast.Assign) and len(s.targets) == 1:
            t = s.targets[0]
            if isinstance(t, ast.Name):
                e = self.with_pre(lambda: [self.ex(s.value)])
                if len(e) != 1 or t.id not in self.scope:
                    fail('unsupported assignment in a loop body', s)
                return ['SLet %s %s' % (cstr(t.id), e[0])]
            if isinstance(t, ast.Tuple) and isinstance(s.value, ast.Tuple) and len(t.elts) == len(s.value.elts) \
                    and all(isinstance(x, ast.Name) and x.id in self.scope for x in t.elts):
                targets = [x.id for x in t.elts]
                for v in s.value.elts:
                    if any(isinstance(m, ast.Name) and m.id in targets for m in ast.walk(v)):
                        fail('a simultaneous assignment whose right-hand side reads a target', s)
                es = self.with_pre(lambda: [self.ex(v) for v in s.value.elts])
                if len(es) != len(targets) or len(set(targets)) != len(targets):
                    fail('unsupported tuple assignment in a loop body', s)
                return ['SLet %s %s' % (cstr(x), e) for x, e in zip(targets, es)]
            # l[-1][-1] = e
            def is_m1(b):
                return (isinstance(b, ast.UnaryOp) and isinstance(b.op, ast.USub) and isinstance(b.operand, ast.Constant)
                        and b.operand.value == 1)
            if isinstance(t, ast.Subscript) and is_m1(t.slice) and isinstance(t.value, ast.Subscript) and is_m1(t.value.slice) \
                    and isinstance(t.value.value, ast.Name) and t.value.value.id in self.scope:
                x = t.value.value.id
                e = self.with_pre(lambda: [self.ex(s.value)])
                if len(e) != 1:
                    fail('a call in a loop body', s)
                return ['SLet %s (WSetLastSnd (WVar %s) %s)' % (cstr(x), cstr(x), e[0])]
        if isinstance(s, ast.Expr) and isinstance(s.value, ast.Call):
            c = s.value
            if isinstance(c.func, ast.Attribute) and c.func.attr == 'append' and isinstance(c.func.value, ast.Name) \
                    and c.func.value.id in self.scope and len(c.args) == 1 and not c.keywords \
                    and isinstance(c.args[0], ast.List) and len(c.args[0].elts) == 2:
                x = c.func.value.id
                es = self.with_pre(lambda: [self.ex(v) for v in c.args[0].elts])
                if len(es) != 2:
                    fail('a call in a loop body', s)
                return ['SLet %s (WAppendPair (WVar %s) %s %s)' % (cstr(x), cstr(x), es[0], es[1])]
        fail('statement outside the accepted loop fragment', s)

    def block(self, stmts):
        out = []
        for i, s in enumerate(stmts):
            out.extend(self.statement(s))
            if isinstance(s, (ast.Return, ast.Raise)) and i + 1 < len(stmts):
                fail('statement after return / raise', stmts[i + 1])
        return out

    def tail(self, stmts):
        """the rest of the body as one opaque call of the variables it reads (parameters first, then locals)"""
        loaded = set()
        for s in stmts:
            for m in ast.walk(s):
                if isinstance(m, ast.Name) and isinstance(m.ctx, ast.Load):
                    loaded.add(m.id)
                if isinstance(m, ast.Call) and self.callee(m.func):
                    fail('the opaque tail calls a function whose arguments are tracked', m)
                if isinstance(m, (ast.Global, ast.Nonlocal, ast.Lambda, ast.FunctionDef)):
                    fail('unsupported construct in the opaque tail', m)
        free = [v for v in self.scope if v in loaded]
        name = '%s.%s#tail' % (self.mod, self.fn.name)
        self.tail_sig = (name, [(v, None) for v in free])
        return ['SCallLet (Some "ret#") %s [%s] []' % (cstr(name), '; '.join('(WVar %s)' % cstr(v) for v in free)),
                'SReturn [(WVar "ret#")]']

    def run(self):
        fn, a = self.fn, self.fn.args
        if fn.decorator_list or a.posonlyargs or a.kwonlyargs or a.vararg or (a.kwarg and not isinstance(self.tail_after, tuple)):
            fail('%s: unexpected signature or decorator' % fn.name)
        if len(set(self.params)) != len(self.params) or any(p in BUILTINS or p in self.subs for p in self.params):
            fail('%s: unusual parameters' % fn.name)
        body = list(fn.body)
        if body and isinstance(body[0], ast.Expr) and isinstance(body[0].value, ast.Constant) and isinstance(body[0].value.value, str):
            body = body[1:]
        if isinstance(self.tail_after, tuple):
            # only the suffix of the body from the first call of the named function; its parameters are the names
            # it reads that are bound before it, in the order in which they are first bound
            _, first = self.tail_after
            start = None
            for i, st in enumerate(body):
                if isinstance(st, ast.Assign) and isinstance(st.value, ast.Call) and self.callee(st.value.func) == (self.mod, first):
                    start = i
                    break
            if start is None:
                fail('%s: no call of %s at statement level' % (fn.name, first))
            bound_before = list(self.params)          # in the order in which the names are first bound
            if a.kwarg:
                bound_before.append(a.kwarg.arg)
            for st in body[:start]:
                stores = [m for m in ast.walk(st) if isinstance(m, ast.Name) and isinstance(m.ctx, ast.Store)]
                for m in sorted(stores, key=lambda m: (m.lineno, m.col_offset)):
                    if m.id not in bound_before:
                        bound_before.append(m.id)
            read_first, assigned = set(), set()
            for st in body[start:]:
                for m in ast.walk(st):
                    if isinstance(m, ast.Name) and isinstance(m.ctx, ast.Load) and m.id not in assigned:
                        read_first.add(m.id)
                for m in ast.walk(st):
                    if isinstance(m, ast.Name) and isinstance(m.ctx, ast.Store):
                        assigned.add(m.id)
            reads = [v for v in bound_before if v in read_first]
            self.params = reads
            self.scope = list(reads)
            for st in body[start:]:
                for sub in ast.walk(st):
                    if isinstance(sub, (ast.Lambda, ast.FunctionDef, ast.Global, ast.Nonlocal, ast.NamedExpr, ast.Await, ast.Yield,
                                        ast.For, ast.While, ast.Try, ast.With, ast.Starred, ast.AugAssign, ast.Delete)):
                        fail('%s: unsupported construct' % fn.name, sub)
            stmts = self.block(body[start:])
        elif self.tail_after is None:
            for sub in ast.walk(fn):
                if isinstance(sub, ast.For) and self.numpy:
                    continue
                if isinstance(sub, (ast.Lambda, ast.FunctionDef, ast.Global, ast.Nonlocal, ast.NamedExpr, ast.Await, ast.Yield,
                                    ast.For, ast.While, ast.Try, ast.With, ast.Starred, ast.AugAssign, ast.Delete)) and sub is not fn:
                    fail('%s: unsupported construct' % fn.name, sub)
            stmts = self.block(body)
        else:
            if len(body) <= self.tail_after:
                fail('%s: body shorter than expected' % fn.name)
            stmts = self.block(body[:self.tail_after]) + self.tail(body[self.tail_after:])
        return ('{| wp_params := [%s];\n  wp_body := [\n    %s ] |}'
                % ('; '.join(cstr(p) for p in self.params), ';\n    '.join(stmts)))


def generate():
    mods = Modules()
    progs, tails = [], []
    for mod, py, coq, tail_after in SPEC:
        mods.check_globals(mod)
        f = Fn(mods, mod, top_func(mods.tree(mod), py), tail_after)
        progs.append((mod, py, coq, f.run()))
        if f.tail_sig:
            tails.append(f.tail_sig)
    sigs = [('%s.%s' % (m, f), mods.signature(m, f)) for m, f in CALLEES] + tails
    progs2 = []
    for mod, py, coq, tail_after in SPEC2:
        mods.check_globals(mod)
        f = Fn(mods, mod, top_func(mods.tree(mod), py), tail_after, callees=CALLEES2, numpy=True)
        progs2.append((mod, py, coq, f.run()))
    sigs2 = [('%s.%s' % (m, f), mods.signature(m, f)) for m, f in CALLEES2] + sorted(NUMPY.items())
    t = HEADER
    t += '(* wrapper metric functions as programs of Model/WrapExp.v, and the signatures of the functions they call *)\n'
    t += 'From Coq Require Import String.\nFrom Coq Require Import List ZArith QArith.\nFrom ME Require Import Model.Prelude Model.WrapExp.\n'
    t += 'Import ListNotations.\nLocal Open Scope string_scope.\n'
    t += 'Definition callee_sigs : list (string * sigt) := [\n%s].\n' % ';\n'.join(
        '  (%s, [%s])' % (cstr(name), '; '.join('(%s, %s)' % (cstr(p), 'None' if d is None else 'Some %s' % d) for p, d in ps))
        for name, ps in sigs)
    for mod, py, coq, text in progs:
        t += '(* %s.%s *)\nDefinition %s : wprog :=\n  %s.\n' % (mod, py, coq, text)
    t += '(* ---- second group ---- *)\n'
    t += 'Definition callee_sigs2 : list (string * sigt) := [\n%s].\n' % ';\n'.join(
        '  (%s, [%s])' % (cstr(name), '; '.join('(%s, %s)' % (cstr(p), 'None' if d is None else 'Some %s' % d) for p, d in ps))
        for name, ps in sigs2)
    for mod, py, coq, text in progs2:
        t += '(* %s.%s *)\nDefinition %s : wprog :=\n  %s.\n' % (mod, py, coq, text)
    return {'WrapFuncs.v': t}
