"""Validators -> coq/Gen/ValidatorsGen.v (programs of the statement language of coq/Model/ArrExp.v).

  util.validate_intervals, util.validate_events, util.validate_frequencies
  onset.validate, beat.validate, segment.validate_boundary, segment.validate_structure, chord.validate,
  melody.validate_voicing, melody.validate, multipitch.validate, transcription.validate_intervals,
  transcription.validate, transcription_velocity.validate, tempo.validate_tempi, tempo.validate, key.validate,
  pattern.validate, alignment.validate, hierarchy.validate_hier_intervals

This file maps syntax only (Python ast, mir_eval is never imported; anything outside the fragment raises
TranslationError). What an operator does on each kind of value (arrays with a shape, 0-d arrays, empty arrays,
lists, lazy and / or, truth values, loops) is defined by the evaluator of Model/ArrExp.v, and Proofs/ValidatorsTie.v
proves each program equal to the hand-written model validator.

Accepted fragment
  statements   x = <expr> | x, y = <expr> | x |= <expr> | x -= <expr>   (read as x = x | <expr>, x = x - <expr>)
               if <expr>: <block> [else: <block>]      (CWarnIf when the body is only warnings.warn and there is no else)
               for <name or tuple of names> in <expr>: <block>          (no else / break / continue)
               raise <BuiltinError>(<message>)          the calls inside the message (x.max(), x.min()) are evaluated first
               warnings.warn(<message>)                 (dropped; the message must be built from total operations)
               <callee>(<args>)                         a function of CALLEES, kept as an opaque call (CExpr (ACall ...));
                                                        keywords and omitted defaulted parameters are resolved against the
                                                        callee's own signature, read from its module
  expressions  names (locals; module-level numeric constants are inlined), None / bool / int / float / str literals, unary -,
               not, and, or, one comparison (== != < <= > >=), a - b, a | b, lists and tuples,
               x.ndim x.size x.shape[i] len(x) x[i] x[-1] x[:, j] x[1:] x[:-1],
               np.abs np.diff np.isfinite np.logical_and np.logical_or np.allclose(a, b) isinstance(x, np.ndarray),
               x.any() x.all() x.min() x.max() x.sum() np.any np.all np.min np.max (one positional argument),
               enumerate(x[, <literal start>]) set(x), calls of CALLEES (also reached through `from .<module> import f`).
What this file decides itself: which function a call denotes (import forms are checked), the positional order of keyword
arguments and defaults (from the callee's def), which names are locals (Python's rule: assigned anywhere in the function)
and which are module constants, and that the message of a raise / warning has no effect beyond the calls it keeps.
"""
import ast
from .common import module, top_func, cq_Q, TranslationError, HEADER

OUTPUTS = ['ValidatorsGen.v']

# (module, function): translated in this order
SPEC = [('util', 'validate_intervals'), ('util', 'validate_events'), ('util', 'validate_frequencies'),
        ('onset', 'validate'), ('beat', 'validate'),
        ('segment', 'validate_boundary'), ('segment', 'validate_structure'),
        ('chord', 'validate'),
        ('melody', 'validate_voicing'), ('melody', 'validate'),
        ('multipitch', 'validate'),
        ('transcription', 'validate_intervals'), ('transcription', 'validate'),
        ('transcription_velocity', 'validate'),
        ('tempo', 'validate_tempi'), ('tempo', 'validate'),
        ('key', 'validate'),
        ('pattern', 'validate'),
        ('alignment', 'validate'),
        ('hierarchy', 'validate_hier_intervals')]
# functions that may be called: (module, function) -> constructor of ArrExp.callee
CALLEES = {('util', 'validate_events'): 'F_util_validate_events',
           ('util', 'validate_intervals'): 'F_util_validate_intervals',
           ('util', 'validate_frequencies'): 'F_util_validate_frequencies',
           ('chord', 'validate_chord_label'): 'F_chord_validate_chord_label',
           ('transcription', 'validate_intervals'): 'F_transcription_validate_intervals',
           ('transcription', 'validate'): 'F_transcription_validate',
           ('tempo', 'validate_tempi'): 'F_tempo_validate_tempi',
           ('key', 'validate_key'): 'F_key_validate_key',
           ('pattern', '_n_onset_midi'): 'F_pattern_n_onset_midi',
           ('util', 'generate_labels'): 'F_util_generate_labels',
           ('util', 'intervals_to_boundaries'): 'F_util_intervals_to_boundaries',
           ('segment', 'validate_structure'): 'F_segment_validate_structure'}
SIBLINGS = {'util', 'transcription'}          # modules reached as  <name>.<function>
EXN = {'ValueError', 'TypeError', 'KeyError', 'IndexError', 'ZeroDivisionError'}
CMP = {ast.Eq: 'VEq', ast.NotEq: 'VNe', ast.Lt: 'VLt', ast.LtE: 'VLe', ast.Gt: 'VGt', ast.GtE: 'VGe'}
BIN = {ast.Sub: 'OpSub', ast.BitOr: 'OpBitOr'}
RED = {'any': 'RAny', 'all': 'RAll', 'min': 'RMinV', 'max': 'RMaxV', 'sum': 'RSum'}
RESERVED = {'np', 'warnings', 'len', 'isinstance', 'type', 'set', 'enumerate', 'util', 'transcription', 'True', 'False', 'None'}


def fail(msg, node=None):
    where = ''
    if node is not None:
        where = ' at line %s: %s' % (getattr(node, 'lineno', '?'), ast.unparse(node)[:160])
    raise TranslationError('validfuncs: ' + msg + where)


def coq_str(s):
    if not (s.isascii() and s.isidentifier()):
        fail('unusual name %r' % s)
    return '"%s"' % s


def coq_list(xs):
    return '[%s]' % '; '.join(xs)


class Mod:
    """what the names of one module denote"""

    def __init__(self, name):
        self.name = name
        self.tree = module(name)
        self.funcs = {}
        self.siblings = set()      # names bound to sibling modules of mir_eval
        self.imported = {}         # f -> (module, f) for  from .<module> import f
        self.np = self.warnings = False
        self.consts = {}
        assigned = {}
        for n in self.tree.body:
            if isinstance(n, ast.FunctionDef):
                self.funcs.setdefault(n.name, []).append(n)
            elif isinstance(n, ast.Import):
                for al in n.names:
                    if (al.name, al.asname) == ('numpy', 'np'):
                        self.np = True
                    elif (al.name, al.asname) == ('warnings', None):
                        self.warnings = True
                    elif (al.asname or al.name.split('.')[0]) in RESERVED | SIBLINGS:
                        fail('%s: unexpected import binding %s' % (name, al.asname or al.name))
            elif isinstance(n, ast.ImportFrom):
                pkg = (n.level == 1 and n.module is None) or (n.level == 0 and n.module == 'mir_eval')
                for al in n.names:
                    bound = al.asname or al.name
                    if pkg and al.asname is None and al.name in SIBLINGS:
                        self.siblings.add(al.name)
                    elif n.level == 1 and n.module and '.' not in n.module and al.asname is None \
                            and (n.module, al.name) in CALLEES and bound not in self.imported:
                        self.imported[bound] = (n.module, al.name)
                    elif bound in RESERVED | SIBLINGS or (name, bound) in CALLEES:
                        fail('%s: unexpected import binding %s' % (name, bound))
            elif isinstance(n, (ast.Assign, ast.AugAssign, ast.AnnAssign)):
                targets = n.targets if isinstance(n, ast.Assign) else [n.target]
                for t in targets:
                    for x in ast.walk(t):
                        if isinstance(x, ast.Name):
                            assigned[x.id] = assigned.get(x.id, 0) + 1
                if isinstance(n, ast.Assign) and len(n.targets) == 1 and isinstance(n.targets[0], ast.Name):
                    self.consts[n.targets[0].id] = n.value
            elif isinstance(n, ast.Expr) and isinstance(n.value, ast.Constant):
                pass                                   # docstring
            elif isinstance(n, ast.ClassDef):
                assigned[n.name] = assigned.get(n.name, 0) + 1
            else:
                # top-level control flow (if / try / for / with / del / ...) could rebind anything it mentions
                for x in ast.walk(n):
                    if isinstance(x, ast.Name) and isinstance(x.ctx, (ast.Store, ast.Del)):
                        assigned[x.id] = assigned.get(x.id, 0) + 2
                    if isinstance(x, (ast.FunctionDef, ast.AsyncFunctionDef, ast.ClassDef)):
                        assigned[x.name] = assigned.get(x.name, 0) + 2
                    if isinstance(x, (ast.Import, ast.ImportFrom)):
                        for al in x.names:
                            b = al.asname or al.name.split('.')[0]
                            assigned[b] = assigned.get(b, 0) + 2
                    if isinstance(x, ast.ExceptHandler) and x.name:
                        assigned[x.name] = assigned.get(x.name, 0) + 2
        self.assigned = assigned
        for x in assigned:
            if x in RESERVED | SIBLINGS or x in self.funcs or x in self.imported:
                fail('%s rebinds %s at module level' % (name, x))
        for f in self.imported:
            if f in self.funcs:
                fail('%s both imports and defines %s' % (name, f))
        for f, defs in self.funcs.items():
            if f in RESERVED | SIBLINGS:
                fail('%s defines a function named %s' % (name, f))

    def func(self, f):
        defs = self.funcs.get(f, [])
        if len(defs) != 1:
            fail('expected exactly one top-level def %s.%s, found %d' % (self.name, f, len(defs)))
        fn, a = defs[0], defs[0].args
        if fn.decorator_list or a.posonlyargs or a.kwonlyargs or a.vararg or a.kwarg:
            fail('%s.%s: unexpected signature or decorator' % (self.name, f))
        return fn

    def const(self, x):
        """a module-level name assigned exactly once, to a numeric literal"""
        if self.assigned.get(x) == 1 and x in self.consts:
            v = self.consts[x]
            if isinstance(v, ast.Constant) and isinstance(v.value, (int, float)) and not isinstance(v.value, bool):
                return v
        return None


MODS = {}


def mod_of(name):
    if name not in MODS:
        MODS[name] = Mod(name)
    return MODS[name]


class Fn:
    def __init__(self, mod, fname):
        self.m = mod_of(mod)
        self.mod = mod
        self.fn = self.m.func(fname)
        self.params = [a.arg for a in self.fn.args.args]
        self.locals = set(self.params)
        for sub in ast.walk(self.fn):
            if isinstance(sub, ast.Name) and isinstance(sub.ctx, (ast.Store, ast.Del)):
                self.locals.add(sub.id)

    # ---------- expressions ----------
    def num(self, c, node):
        if c is None:
            return 'ANone'
        if isinstance(c, bool):
            return '(ABool %s)' % ('true' if c else 'false')
        if isinstance(c, int) and abs(c) < 2 ** 62:
            return '(AInt (%d)%%Z)' % c
        if isinstance(c, float) and c == c and abs(c) < 1e300:
            return '(AFloat %s%%Q)' % cq_Q(c)
        if isinstance(c, str) and c.isascii():
            return '(AStr [%s]%%nat)' % '; '.join(str(ord(ch)) for ch in c)
        fail('unsupported literal', node)

    def var(self, name, node):
        if name in self.locals:
            return '(AVar %s)' % coq_str(name)
        c = self.m.const(name)
        if c is not None:
            return self.num(c.value, node)
        fail('unknown name %r' % name, node)

    def is_np(self, f, attr=None):
        """the attribute np.<attr> of the numpy module (np must not be a local)"""
        ok = (isinstance(f, ast.Attribute) and isinstance(f.value, ast.Name) and f.value.id == 'np' and self.m.np
              and 'np' not in self.locals)
        return ok and (attr is None or f.attr == attr)

    def nat_index(self, s):
        if isinstance(s, ast.Constant) and isinstance(s.value, int) and not isinstance(s.value, bool) and 0 <= s.value < 1000:
            return s.value
        return None

    def is_minus_one(self, s):
        return (isinstance(s, ast.UnaryOp) and isinstance(s.op, ast.USub) and isinstance(s.operand, ast.Constant)
                and s.operand.value == 1 and type(s.operand.value) is int)

    def ex(self, n):
        if isinstance(n, ast.Constant):
            return self.num(n.value, n)
        if isinstance(n, ast.Name):
            if not isinstance(n.ctx, ast.Load):
                fail('unexpected context', n)
            return self.var(n.id, n)
        if isinstance(n, (ast.List, ast.Tuple)):
            return '(ATuple %s)' % coq_list([self.ex(x) for x in n.elts])
        if isinstance(n, ast.UnaryOp):
            if isinstance(n.op, ast.USub) and isinstance(n.operand, ast.Constant) and isinstance(n.operand.value, (int, float)) \
                    and not isinstance(n.operand.value, bool):
                return self.num(-n.operand.value, n)
            if isinstance(n.op, ast.Not):
                return '(ANot %s)' % self.ex(n.operand)
            fail('unsupported unary operator', n)
        if isinstance(n, ast.BinOp):
            if type(n.op) not in BIN:
                fail('unsupported binary operator', n)
            return '(ABin %s %s %s)' % (BIN[type(n.op)], self.ex(n.left), self.ex(n.right))
        if isinstance(n, ast.Compare):
            if len(n.ops) != 1 or type(n.ops[0]) not in CMP:
                fail('unsupported comparison', n)
            return '(ACmp %s %s %s)' % (CMP[type(n.ops[0])], self.ex(n.left), self.ex(n.comparators[0]))
        if isinstance(n, ast.BoolOp):
            comb = 'AAnd' if isinstance(n.op, ast.And) else 'AOr'
            parts = [self.ex(x) for x in n.values]
            out = parts[-1]
            for p in reversed(parts[:-1]):
                out = '(%s %s %s)' % (comb, p, out)
            return out
        if isinstance(n, ast.Attribute):
            if self.is_np(n):
                fail('a numpy attribute is not a value of the fragment', n)
            if n.attr == 'ndim':
                return '(ANdim %s)' % self.ex(n.value)
            if n.attr == 'size':
                return '(ASize %s)' % self.ex(n.value)
            fail('unsupported attribute', n)
        if isinstance(n, ast.Subscript):
            return self.subscript(n)
        if isinstance(n, ast.Call):
            return self.call(n)
        fail('expression outside the accepted fragment', n)

    def subscript(self, n):
        s = n.slice
        if isinstance(n.value, ast.Attribute) and n.value.attr == 'shape' and not self.is_np(n.value):
            i = self.nat_index(s)
            if i is None:
                fail('only .shape[<literal i >= 0>] is accepted', n)
            return '(AShape %s %d%%nat)' % (self.ex(n.value.value), i)
        i = self.nat_index(s)
        if i is not None:
            return '(AIndex %s %d%%nat)' % (self.ex(n.value), i)
        if self.is_minus_one(s):
            return '(ALast %s)' % self.ex(n.value)
        if isinstance(s, ast.Tuple) and len(s.elts) == 2 and isinstance(s.elts[0], ast.Slice) \
                and s.elts[0].lower is None and s.elts[0].upper is None and s.elts[0].step is None:
            j = self.nat_index(s.elts[1])
            if j is not None:
                return '(ACol %s %d%%nat)' % (self.ex(n.value), j)
        if isinstance(s, ast.Slice) and s.step is None:
            if s.upper is None and s.lower is not None and self.nat_index(s.lower) == 1:
                return '(ATail %s)' % self.ex(n.value)
            if s.lower is None and s.upper is not None and self.is_minus_one(s.upper):
                return '(AInit %s)' % self.ex(n.value)
        fail('unsupported index', n)

    def callee(self, f):
        """(module, function) denoted by the callee expression, or None"""
        if isinstance(f, ast.Name) and f.id not in self.locals and f.id in self.m.funcs:
            return (self.mod, f.id)
        if isinstance(f, ast.Name) and f.id not in self.locals and f.id in self.m.imported:
            return self.m.imported[f.id]
        if isinstance(f, ast.Attribute) and isinstance(f.value, ast.Name) and f.value.id in self.m.siblings \
                and f.value.id not in self.locals:
            return (f.value.id, f.attr)
        return None

    def call_args(self, n, target):
        """positional argument list of a call of CALLEES[target], from the callee's own signature"""
        fn = mod_of(target[0]).func(target[1])
        names = [a.arg for a in fn.args.args]
        defaults = dict(zip(names[len(names) - len(fn.args.defaults):], fn.args.defaults))
        if any(k.arg is None for k in n.keywords) or any(isinstance(a, ast.Starred) for a in n.args):
            fail('* / ** in a call', n)
        if len(n.args) > len(names):
            fail('too many arguments', n)
        given = dict(zip(names, n.args))
        for k in n.keywords:
            if k.arg not in names or k.arg in given:
                fail('unexpected keyword %s' % k.arg, n)
            given[k.arg] = k.value
        out = []
        for p in names:
            if p in given:
                out.append(self.ex(given[p]))
            elif p in defaults:
                d = defaults[p]
                if not isinstance(d, ast.Constant):
                    fail('non-literal default of %s.%s(%s)' % (target[0], target[1], p), n)
                out.append(self.num(d.value, d))
            else:
                fail('missing argument %s' % p, n)
        # Python evaluates the arguments in the order written; positional before keywords and keywords in parameter
        # order is the same order here only if the keywords are written in parameter order
        kw_order = [names.index(k.arg) for k in n.keywords]
        if kw_order != sorted(kw_order):
            fail('keywords are not in parameter order', n)
        return out

    def call(self, n):
        f = n.func
        target = self.callee(f)
        if target is not None:
            if target not in CALLEES:
                fail('call of a function that is not in CALLEES', n)
            return '(ACall %s %s)' % (CALLEES[target], coq_list(self.call_args(n, target)))
        if n.keywords or any(isinstance(a, ast.Starred) for a in n.args):
            fail('unexpected arguments', n)
        k = len(n.args)
        # methods of a value
        if isinstance(f, ast.Attribute) and not (isinstance(f.value, ast.Name) and f.value.id in {'np', 'warnings'} | SIBLINGS):
            if f.attr in RED and k == 0:
                return '(ARed %s %s)' % (RED[f.attr], self.ex(f.value))
            fail('unsupported method', n)
        if self.is_np(f):
            a = [self.ex(x) for x in n.args]
            if f.attr in ('any', 'all', 'min', 'max') and k == 1:
                return '(ARed %s %s)' % (RED[f.attr], a[0])
            if f.attr in ('abs', 'absolute') and k == 1:
                return '(AAbs %s)' % a[0]
            if f.attr == 'diff' and k == 1:
                return '(ADiff %s)' % a[0]
            if f.attr == 'isfinite' and k == 1:
                return '(AIsFinite %s)' % a[0]
            if f.attr in ('logical_and', 'logical_or') and k == 2:
                return '(ALogic %s %s %s)' % ('true' if f.attr.endswith('and') else 'false', a[0], a[1])
            if f.attr == 'allclose' and k == 2:
                return '(AAllclose %s %s)' % (a[0], a[1])
            fail('numpy function outside the accepted fragment', n)
        if isinstance(f, ast.Name) and f.id not in self.locals and f.id not in self.m.funcs and f.id not in self.m.assigned:
            if f.id == 'len' and k == 1:
                return '(ALen %s)' % self.ex(n.args[0])
            if f.id == 'isinstance' and k == 2 and self.is_np(n.args[1], 'ndarray'):
                return '(AIsArray %s)' % self.ex(n.args[0])
            if f.id == 'set' and k == 1:
                return '(ASet %s)' % self.ex(n.args[0])
            if f.id == 'enumerate' and k in (1, 2):
                start = 0
                if k == 2:
                    c = n.args[1]
                    if not (isinstance(c, ast.Constant) and type(c.value) is int and 0 <= c.value < 2 ** 31):
                        fail('enumerate needs a literal start', n)
                    start = c.value
                return '(AEnumerate %s (%d)%%Z)' % (self.ex(n.args[0]), start)
        fail('call outside the accepted fragment', n)

    # ---------- messages of raise / warnings.warn ----------
    def message(self, n):
        """the expressions a message evaluates that can raise (x.max(), x.min()); everything else must be total"""
        if isinstance(n, ast.Constant):
            return []
        if isinstance(n, ast.Name):
            self.var(n.id, n)
            return []
        if isinstance(n, ast.Attribute) and n.attr in ('shape', 'ndim', 'size') and isinstance(n.value, ast.Name):
            self.var(n.value.id, n)
            return []
        if isinstance(n, ast.Tuple):
            return [e for x in n.elts for e in self.message(x)]
        if isinstance(n, ast.BinOp) and isinstance(n.op, ast.Mod) and isinstance(n.left, ast.Constant) and isinstance(n.left.value, str):
            return self.message(n.right)
        if isinstance(n, ast.JoinedStr):
            out = []
            for v in n.values:
                if isinstance(v, ast.FormattedValue):
                    if v.format_spec is not None:
                        fail('format specification in an f-string', n)
                    out += self.message(v.value)
                elif not isinstance(v, ast.Constant):
                    fail('unsupported f-string', n)
            return out
        if isinstance(n, ast.Call) and not n.keywords:
            f = n.func
            if isinstance(f, ast.Attribute) and f.attr == 'format' and isinstance(f.value, ast.Constant) and isinstance(f.value.value, str):
                return [e for x in n.args for e in self.message(x)]
            if isinstance(f, ast.Name) and f.id == 'type' and 'type' not in self.locals and len(n.args) == 1 and isinstance(n.args[0], ast.Name):
                self.var(n.args[0].id, n)
                return []
            if isinstance(f, ast.Attribute) and f.attr in ('max', 'min') and isinstance(f.value, ast.Name) and not n.args:
                return [self.ex(n)]
        fail('message outside the accepted fragment', n)

    # ---------- statements ----------
    def is_warn(self, s):
        if isinstance(s, ast.Expr) and isinstance(s.value, ast.Call):
            f = s.value.func
            return (isinstance(f, ast.Attribute) and f.attr == 'warn' and isinstance(f.value, ast.Name) and f.value.id == 'warnings'
                    and self.m.warnings and 'warnings' not in self.locals)
        return False

    def warn(self, s):
        c = s.value
        if len(c.args) != 1 or c.keywords:
            fail('warnings.warn must be given one message', s)
        # a warning is dropped: the calls inside its message would be too, so there must be none
        if self.message(c.args[0]):
            fail('a call inside a warning message', s)
        return []

    def target(self, t, node):
        names = [t] if isinstance(t, ast.Name) else (list(t.elts) if isinstance(t, ast.Tuple) else None)
        if not names or not all(isinstance(x, ast.Name) for x in names):
            fail('unsupported assignment target', node)
        ids = [x.id for x in names]
        for x in ids:
            if x in RESERVED or x in SIBLINGS or x in self.m.funcs or (self.mod, x) in CALLEES:
                fail('assignment to a reserved name %r' % x, node)
        if len(set(ids)) != len(ids):
            fail('repeated name in a target', node)
        return coq_list([coq_str(x) for x in ids])

    def block(self, stmts):
        out = []
        for i, s in enumerate(stmts):
            out.extend(self.statement(s))
            if isinstance(s, ast.Raise) and i + 1 < len(stmts):
                fail('statement after raise', stmts[i + 1])
        return out

    def statement(self, s):
        if self.is_warn(s):
            return self.warn(s)
        if isinstance(s, ast.Expr) and isinstance(s.value, ast.Call):
            if self.callee(s.value.func) is None:
                fail('call statement outside the accepted fragment', s)
            return ['CExpr %s' % self.call(s.value)]
        if isinstance(s, ast.Assign):
            if len(s.targets) != 1:
                fail('chained assignment', s)
            return ['CAssign %s %s' % (self.target(s.targets[0], s), self.ex(s.value))]
        if isinstance(s, ast.AugAssign):
            if type(s.op) not in BIN or not isinstance(s.target, ast.Name):
                fail('unsupported augmented assignment', s)
            x = s.target.id
            return ['CAssign %s (ABin %s (AVar %s) %s)' % (self.target(s.target, s), BIN[type(s.op)], coq_str(x), self.ex(s.value))]
        if isinstance(s, ast.If):
            c = self.ex(s.test)
            if not s.orelse and all(self.is_warn(x) for x in s.body):
                for x in s.body:
                    self.warn(x)
                return ['CWarnIf %s' % c]
            return ['CIf %s %s %s' % (c, coq_list(self.block(s.body)), coq_list(self.block(s.orelse)))]
        if isinstance(s, ast.For):
            if s.orelse:
                fail('for ... else', s)
            for sub in ast.walk(s):
                if isinstance(sub, (ast.Break, ast.Continue)):
                    fail('break / continue', sub)
            return ['CFor %s %s %s' % (self.target(s.target, s), self.ex(s.iter), coq_list(self.block(s.body)))]
        if isinstance(s, ast.Raise):
            e = s.exc
            name = e.func.id if isinstance(e, ast.Call) and isinstance(e.func, ast.Name) else None
            if s.cause is not None or name not in EXN or name in self.locals or name in self.m.funcs or name in self.m.assigned \
                    or e.keywords:
                fail('unsupported raise', s)
            effects = [x for a in e.args for x in self.message(a)]
            return ['CExpr %s' % x for x in effects] + ['CRaise %s' % name]
        fail('statement outside the accepted fragment', s)

    def run(self):
        fn = self.fn
        if len(set(self.params)) != len(self.params):
            fail('%s: repeated parameter' % fn.name)
        for x in self.locals:
            if x in RESERVED or x in SIBLINGS or x in self.m.funcs:
                fail('%s.%s: a local is named %s' % (self.mod, fn.name, x))
        if fn.args.defaults and not all(isinstance(d, ast.Constant) for d in fn.args.defaults):
            fail('%s.%s: non-literal default' % (self.mod, fn.name))
        for sub in ast.walk(fn):
            if isinstance(sub, (ast.Lambda, ast.FunctionDef, ast.AsyncFunctionDef, ast.ClassDef, ast.Global, ast.Nonlocal, ast.NamedExpr,
                                ast.Await, ast.Yield, ast.YieldFrom, ast.While, ast.Try, ast.With, ast.Starred,
                                ast.AnnAssign, ast.Delete, ast.Import, ast.ImportFrom, ast.Return, ast.ListComp, ast.SetComp,
                                ast.DictComp, ast.GeneratorExp, ast.IfExp, ast.Assert)) and sub is not fn:
                fail('%s.%s: unsupported construct' % (self.mod, fn.name), sub)
        body = list(fn.body)
        if body and isinstance(body[0], ast.Expr) and isinstance(body[0].value, ast.Constant) and isinstance(body[0].value.value, str):
            body = body[1:]
        stmts = self.block(body)
        return ('{| ap_params := %s;\n  ap_body := [\n    %s ] |}'
                % (coq_list([coq_str(p) for p in self.params]), ';\n    '.join(stmts)))


def generate():
    MODS.clear()
    t = HEADER
    t += '(* validators as programs of Model/ArrExp.v *)\n'
    t += 'From Coq Require Import String.\nFrom Coq Require Import List ZArith QArith.\n'
    t += 'From ME Require Import Model.Prelude Model.VecExp Model.ArrExp.\n'
    t += 'Import ListNotations.\nLocal Open Scope string_scope.\n'
    for mod, py in SPEC:
        t += '(* %s.%s *)\nDefinition gen_%s_%s : aprog :=\n  %s.\n' % (mod, py, mod, py.lstrip('_'), Fn(mod, py).run())
    return {'ValidatorsGen.v': t}
