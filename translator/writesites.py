"""In-place write sites, module-level state and np.empty buffers of all mir_eval modules -> coq/Gen/WriteSites.v (C15, C19).

A small flow-sensitive abstract interpretation over each function body computes, for every name at every statement,
the set of ORIGINS its value may share storage with: a parameter, the **kwargs dict (fresh per call), a module-level
object, a fresh object, or unknown. Every syntactic in-place write (subscript / attribute store, augmented assignment,
mutating method call, `out=` argument, `del x[..]`) is emitted with the origins of its target. The analysis is
conservative: results of calls it does not know may alias any of their arguments. What is or is not acceptable is
decided in Coq (Model/Purity.v) over the emitted list."""
import ast
import os
from .common import REPO, TranslationError, HEADER

OUTPUTS = ['WriteSites.v']
MODULES = ['alignment', 'beat', 'chord', 'hierarchy', 'io', 'key', 'melody', 'multipitch', 'onset', 'pattern',
           'segment', 'separation', 'sonify', 'tempo', 'transcription', 'transcription_velocity', 'util']

FRESH = 'Fresh'
KW = 'Kwargs'
UNK = 'Unknown'

# calls whose result never shares storage with an argument
FRESH_CALLS = {
    'list', 'dict', 'set', 'tuple', 'sorted', 'len', 'int', 'float', 'str', 'bool', 'range', 'zip', 'enumerate', 'min', 'max', 'sum', 'abs',
    'round', 'any', 'all', 'map', 'filter', 'reversed', 'iter', 'isinstance', 'getattr', 'type', 'repr', 'format', 'frozenset', 'divmod',
    'copy.copy', 'copy.deepcopy', 'collections.OrderedDict', 'collections.defaultdict', 'collections.Counter',
    'np.array', 'np.abs', 'np.sort', 'np.argsort', 'np.concatenate', 'np.vstack', 'np.hstack', 'np.column_stack', 'np.stack', 'np.zeros',
    'np.empty', 'np.ones', 'np.zeros_like', 'np.ones_like', 'np.empty_like', 'np.full', 'np.arange', 'np.linspace', 'np.diff', 'np.unique',
    'np.round', 'np.around', 'np.maximum', 'np.minimum', 'np.insert', 'np.append', 'np.delete', 'np.where', 'np.argwhere', 'np.nonzero',
    'np.searchsorted', 'np.mean', 'np.median', 'np.sum', 'np.max', 'np.min', 'np.std', 'np.var', 'np.log', 'np.log2', 'np.log10', 'np.exp',
    'np.sqrt', 'np.floor', 'np.ceil', 'np.mod', 'np.subtract.outer', 'np.add.outer', 'np.dot', 'np.correlate', 'np.histogram', 'np.interp',
    'np.isnan', 'np.isfinite', 'np.isinf', 'np.isclose', 'np.allclose', 'np.any', 'np.all', 'np.logical_and', 'np.logical_or', 'np.logical_not',
    'np.equal', 'np.greater', 'np.less', 'np.cumsum', 'np.cumprod', 'np.prod', 'np.argmax', 'np.argmin', 'np.clip', 'np.sign', 'np.tile',
    'np.repeat', 'np.eye', 'np.identity', 'np.outer', 'np.cos', 'np.sin', 'np.power', 'np.square', 'np.roll', 'np.flipud', 'np.fliplr',
    'np.triu', 'np.tril', 'np.diag', 'np.trace', 'np.linalg.norm', 'np.linalg.solve', 'np.linalg.lstsq', 'np.fft.fft', 'np.fft.ifft',
    'np.fft.rfft', 'np.fft.irfft', 'np.real', 'np.imag', 'np.conj', 'np.pad', 'np.bincount', 'np.digitize', 'np.take', 'np.compress',
    'np.random.rand', 'np.random.randn', 'np.nan_to_num', 'np.float64', 'np.int64', 'np.count_nonzero', 'np.expand_dims', 'np.sinc',
    'np.hanning', 'np.convolve', 'np.ix_', 'np.meshgrid', 'np.lexsort', 'np.array_equal', 'np.ptp', 'np.rint', 'np.trunc', 'np.fix',
    'scipy.sparse.lil_matrix', 'scipy.sparse.csr_matrix', 'scipy.sparse.coo_matrix', 'scipy.special.comb', 'scipy.special.gammaln',
    'scipy.stats.entropy', 'scipy.interpolate.interp1d', 'scipy.fftpack.fft', 'scipy.fftpack.ifft', 'scipy.linalg.toeplitz',
    'scipy.signal.resample', 'scipy.fft.fft', 'scipy.fft.ifft', 'itertools.permutations', 'itertools.product', 'itertools.combinations',
    'itertools.chain', 're.compile', 're.split', 're.match', 'open', 'warnings.warn', 'inspect.signature',
}
# fresh containers that still hold the (possibly mutable) elements of their argument
SHALLOW_CALLS = {'list', 'dict', 'set', 'tuple', 'sorted', 'reversed', 'zip', 'enumerate', 'map', 'filter', 'iter', 'copy.copy', 'frozenset',
                 'collections.OrderedDict', 'collections.defaultdict', 'itertools.chain', 'itertools.product', 'itertools.permutations',
                 'itertools.combinations'}
# calls / methods / attributes whose result may be (a view of) their first argument / receiver
ALIAS_CALLS = {'np.asarray', 'np.atleast_1d', 'np.atleast_2d', 'np.atleast_3d', 'np.squeeze', 'np.ravel', 'np.reshape', 'np.transpose',
               'np.asanyarray', 'np.ascontiguousarray', 'np.swapaxes', 'np.moveaxis', 'np.broadcast_to'}
FRESH_METHODS = {'copy', 'astype', 'tolist', 'toarray', 'todense', 'tocsr', 'tocoo', 'flatten', 'sum', 'mean', 'max', 'min', 'std', 'var',
                 'any', 'all', 'argmax', 'argmin', 'argsort', 'nonzero', 'cumsum', 'round', 'dot', 'keys', 'values', 'items', 'get', 'split',
                 'strip', 'lower', 'upper', 'join', 'format', 'count', 'index', 'startswith', 'endswith', 'replace', 'find', 'readlines',
                 'read', 'readline', 'most_common', 'conj', 'prod', 'ptp', 'searchsorted', 'repeat', 'take', 'encode', 'decode', 'isdigit',
                 'lstrip', 'rstrip', 'union', 'intersection', 'difference', 'multiply', 'power', 'diagonal', 'clip', 'nbytes', 'groups', 'group',
                 'match', 'search', 'sub', 'findall', 'tobytes', 'item'}
ALIAS_METHODS = {'reshape', 'ravel', 'squeeze', 'view', 'transpose', 'swapaxes', 'T'}
MUTATORS = {'append', 'extend', 'insert', 'pop', 'remove', 'sort', 'reverse', 'clear', 'update', 'setdefault', 'popitem', 'fill', 'put',
            'resize', 'itemset', 'partition', 'add', 'discard', 'setflags', 'setfield', 'byteswap', 'eliminate_zeros', 'setdiag'}


def elems_of(orgs):
    """origins of the ELEMENTS of a freshly built container whose items come from values with origins `orgs`"""
    out = set()
    for o in orgs:
        if o == FRESH:
            continue
        out.add(o if o.startswith('Elems:') else 'Elems:' + o)
    return out


def element_origins(orgs):
    """origins of x[i] / an item yielded by iterating x, given the origins of x"""
    out = set()
    for o in orgs:
        if o.startswith('Elems:'):
            out.add(o[len('Elems:'):])
        else:
            out.add(o)                 # a view / element of a fresh object with fresh content is fresh; of a parameter, the parameter's
    return out or {FRESH}


def own(orgs):
    """origins of the object itself (content tags dropped)"""
    return {o for o in orgs if not o.startswith('Elems:')} or {FRESH}


def dotted(n):
    if isinstance(n, ast.Name):
        return n.id
    if isinstance(n, ast.Attribute):
        b = dotted(n.value)
        return b + '.' + n.attr if b else None
    return None


class Fn:
    fresh_funcs = set()          # functions (module-local name and `module.name`) all of whose returned values are fresh
    ret_summary = {}             # function -> origins of its returned values (Param:* = may alias an argument; Global:* ...)

    def __init__(self, mod, fn, module_names, imports):
        self.mod, self.fn, self.module_names, self.imports = mod, fn, module_names, imports
        self.sites = []
        self.counter = {}
        self.returns = set()

    # ---- origins of an expression ----
    def org(self, e, env):
        if e is None:
            return {FRESH}
        if isinstance(e, ast.Name):
            if e.id in env:
                return set(env[e.id])
            if e.id in self.module_names:
                return {'Global:' + e.id}
            return {FRESH} if e.id in ('True', 'False', 'None') or e.id in self.imports else {UNK}
        if isinstance(e, (ast.List, ast.Tuple, ast.Set)):
            out = {FRESH}
            for x in e.elts:
                out |= elems_of(self.org(x, env))
            return out
        if isinstance(e, ast.Dict):
            out = {FRESH}
            for x in e.values:
                if x is not None:
                    out |= elems_of(self.org(x, env))
            return out
        if isinstance(e, (ast.ListComp, ast.SetComp, ast.GeneratorExp, ast.DictComp)):
            cenv = dict((k, set(v)) for k, v in env.items())
            for g in e.generators:
                self.bind_iter(g.target, g.iter, cenv)
            body = e.value if isinstance(e, ast.DictComp) else e.elt
            return {FRESH} | elems_of(self.org(body, cenv))
        if isinstance(e, (ast.Constant, ast.BinOp, ast.UnaryOp, ast.Compare, ast.JoinedStr, ast.Lambda, ast.FormattedValue)):
            return {FRESH}
        if isinstance(e, ast.BoolOp):
            out = set()
            for v in e.values:
                out |= self.org(v, env)
            return out
        if isinstance(e, ast.IfExp):
            return self.org(e.body, env) | self.org(e.orelse, env)
        if isinstance(e, ast.Subscript):
            bo = self.org(e.value, env)
            sl = e.slice
            is_slice = isinstance(sl, ast.Slice) or (isinstance(sl, ast.Tuple) and any(isinstance(x, ast.Slice) for x in sl.elts))
            if is_slice:
                # x[a:b]: a view (arrays) or a new container holding the same elements (lists): the origins of x itself are kept
                # conservatively (sound for views), and so are the content tags
                return set(bo)
            # x[i]: one of the objects x holds, or a view / scalar of x itself
            return element_origins(bo) | {o for o in bo if o.startswith('Elems:')}
        if isinstance(e, ast.Starred):
            return self.org(e.value, env)
        if isinstance(e, ast.Attribute):
            d = dotted(e)
            if d and d.split('.')[0] in self.imports and d.split('.')[0] not in env:
                return {FRESH}                        # np.nan, util.X ...
            return self.org(e.value, env)
        if isinstance(e, ast.NamedExpr):
            return self.org(e.value, env)
        if isinstance(e, ast.Call):
            d = dotted(e.func)
            args = list(e.args) + [k.value for k in e.keywords]
            nocopy = any(k.arg == 'copy' and isinstance(k.value, ast.Constant) and k.value.value is False for k in e.keywords)
            if nocopy and d in ('np.nan_to_num', 'np.array', 'np.asarray', 'np.asanyarray') and e.args:
                return self.org(e.args[0], env)       # copy=False: the result IS (or may be) the argument
            if d in FRESH_CALLS or d in self.fresh_funcs:
                out = {FRESH}
                if d in SHALLOW_CALLS:
                    for a in args:
                        ao = self.org(a, env)
                        out |= elems_of(element_origins(ao)) | {o for o in ao if o.startswith('Elems:')}
                return out
            if d in ALIAS_CALLS:
                return self.org(e.args[0], env) if e.args else {FRESH}
            if d in self.ret_summary:
                # a library function with a known summary: its result may alias its arguments only if it returns (an alias of)
                # a parameter, and it may be (an alias of) whatever module-level object it returns
                out = set()
                for tag in self.ret_summary[d]:
                    base = tag[len('Elems:'):] if tag.startswith('Elems:') else tag
                    if base.startswith('Param:'):
                        for a in args:
                            ao = self.org(a, env)
                            out |= (elems_of(ao) if tag.startswith('Elems:') else ao)
                    else:
                        out.add(tag)
                return out or {FRESH}
            if isinstance(e.func, ast.Attribute) and not (d and d.split('.')[0] in self.imports and d.split('.')[0] not in env):
                m = e.func.attr
                if m == 'astype' and any(k.arg == 'copy' and isinstance(k.value, ast.Constant) and k.value.value is False for k in e.keywords):
                    return self.org(e.func.value, env)   # astype(..., copy=False) may return the receiver itself
                if m in FRESH_METHODS:
                    if m in ('copy', 'values', 'items', 'get', 'tolist'):
                        ro = self.org(e.func.value, env)
                        return {FRESH} | elems_of(element_origins(ro)) | {o for o in ro if o.startswith('Elems:')}
                    return {FRESH}
                if m in ALIAS_METHODS:
                    return self.org(e.func.value, env)
                out = self.org(e.func.value, env)
                for a in args:
                    out |= self.org(a, env)
                return out
            out = set()
            for a in args:
                out |= self.org(a, env)
            return out or {FRESH}
        raise TranslationError('%s.%s: expression outside the accepted fragment: %s' % (self.mod, self.fn, ast.dump(e)[:80]))

    def base_name(self, t):
        while isinstance(t, (ast.Subscript, ast.Attribute)):
            t = t.value
        return t

    def site(self, kind, target_expr, env, node):
        b = self.base_name(target_expr)
        if self.fn.endswith('.__init__') and isinstance(b, ast.Name) and b.id == 'self':
            return                                   # initialising the object under construction
        # the object written INTO: for x[i] = v / x[i][j] = v / x.attr = v it is the value of target.value
        written = target_expr.value if (kind in ('store', 'augstore', 'delete') and isinstance(target_expr, (ast.Subscript, ast.Attribute))) else target_expr
        name = dotted(written) or ast.unparse(written)[:40]
        org = sorted(own(self.org(written, env)))
        key = (kind, name)
        self.counter[key] = self.counter.get(key, 0) + 1
        self.sites.append((kind, name, self.counter[key], org, ast.unparse(node).split('\n')[0][:90]))

    def add_elems(self, container, org, env):
        """container[...] = value / container.append(value): the container now holds the value"""
        b = self.base_name(container)
        if isinstance(b, ast.Name) and b.id in env:
            env[b.id] = set(env[b.id]) | elems_of(org)

    def bind_iter(self, target, it, env):
        """loop target := an item of `it`; zip(...) / enumerate(...) items are unpacked component-wise"""
        if isinstance(it, ast.Call) and isinstance(it.func, ast.Name) and isinstance(target, (ast.Tuple, ast.List)) and not it.keywords:
            if it.func.id == 'zip' and len(it.args) == len(target.elts) and not any(isinstance(a, ast.Starred) for a in it.args):
                for t, a in zip(target.elts, it.args):
                    self.bind_iter(t, a, env) if isinstance(t, (ast.Tuple, ast.List)) else self.bind_acc(t, element_origins(self.org(a, env)), env)
                return
            if it.func.id == 'enumerate' and len(target.elts) == 2 and it.args:
                self.bind_acc(target.elts[0], {FRESH}, env)
                if isinstance(target.elts[1], (ast.Tuple, ast.List)):
                    self.bind_iter(target.elts[1], it.args[0], env)
                else:
                    self.bind_acc(target.elts[1], element_origins(self.org(it.args[0], env)), env)
                return
        self.bind_acc(target, element_origins(self.org(it, env)), env)

    def bind_acc(self, target, org, env):
        if isinstance(target, ast.Name):
            env[target.id] = set(env.get(target.id, set())) | set(org)
        elif isinstance(target, (ast.Tuple, ast.List)):
            for t in target.elts:
                self.bind_acc(t.value if isinstance(t, ast.Starred) else t, org, env)

    def bind(self, target, org, env):
        if isinstance(target, ast.Name):
            env[target.id] = set(org)
        elif isinstance(target, (ast.Tuple, ast.List)):
            for t in target.elts:
                self.bind(t.value if isinstance(t, ast.Starred) else t, org, env)
        # subscript / attribute targets are writes, handled by the caller

    def scan_calls(self, node, env):
        """mutating method calls and out= arguments anywhere inside an expression/statement (not into nested defs)."""
        for n in ast.walk(node):
            if isinstance(n, ast.Call):
                if isinstance(n.func, ast.Attribute) and n.func.attr in MUTATORS:
                    d = dotted(n.func.value)
                    if not (d and d.split('.')[0] in self.imports and d.split('.')[0] not in env):
                        self.site('method-' + n.func.attr, n.func.value, env, n)
                        if n.func.attr in ('append', 'extend', 'insert', 'update', 'setdefault', 'add'):
                            for a in n.args:
                                ao = self.org(a, env)
                                self.add_elems(n.func.value, ao if n.func.attr not in ('extend', 'update') else element_origins(ao), env)
                for k in n.keywords:
                    if k.arg == 'out' and not (isinstance(k.value, ast.Constant) and k.value.value is None):
                        self.site('out-argument', k.value, env, n)
                d = dotted(n.func)
                if d == 'np.nan_to_num' and n.args and (any(k.arg == 'copy' and isinstance(k.value, ast.Constant) and k.value.value is False
                                                            for k in n.keywords) or (len(n.args) >= 2 and isinstance(n.args[1], ast.Constant)
                                                                                     and n.args[1].value is False)):
                    self.site('call-np.nan_to_num-copy-False', n.args[0], env, n)    # replaces nan / inf IN PLACE
                if d in ('np.copyto', 'np.put', 'np.place', 'np.putmask', 'np.fill_diagonal', 'random.shuffle', 'np.random.shuffle') and n.args:
                    self.site('call-' + d, n.args[0], env, n)
                if d in ('np.logical_or', 'np.logical_and', 'np.add', 'np.subtract', 'np.multiply', 'np.divide', 'np.maximum', 'np.minimum') and len(n.args) >= 3:
                    self.site('out-argument', n.args[2], env, n)

    def merge(self, a, b):
        out = {}
        for k in set(a) | set(b):
            out[k] = set(a.get(k, {UNK})) | set(b.get(k, {UNK})) if (k in a) != (k in b) else set(a[k]) | set(b[k])
        return out

    def block(self, stmts, env):
        for s in stmts:
            env = self.stmt(s, env)
        return env

    def stmt(self, s, env):
        if isinstance(s, (ast.FunctionDef, ast.AsyncFunctionDef, ast.ClassDef)):
            env[s.name] = {FRESH}
            return env
        if isinstance(s, (ast.Import, ast.ImportFrom, ast.Pass, ast.Break, ast.Continue, ast.Global, ast.Nonlocal)):
            if isinstance(s, (ast.Global, ast.Nonlocal)):
                self.sites.append(('global-statement', ','.join(s.names), 1, ['Global:' + s.names[0]], ast.unparse(s)))
            return env
        if isinstance(s, ast.Assign):
            self.scan_calls(s.value, env)
            org = self.org(s.value, env)
            for t in s.targets:
                for tt in (t.elts if isinstance(t, (ast.Tuple, ast.List)) else [t]):
                    if isinstance(tt, (ast.Subscript, ast.Attribute)):
                        self.site('store', tt, env, s)
                        self.add_elems(tt.value, org, env)
                self.bind(t, org, env)
            return env
        if isinstance(s, ast.AnnAssign):
            if s.value is not None:
                self.scan_calls(s.value, env)
                if isinstance(s.target, (ast.Subscript, ast.Attribute)):
                    self.site('store', s.target, env, s)
                self.bind(s.target, self.org(s.value, env), env)
            return env
        if isinstance(s, ast.AugAssign):
            self.scan_calls(s.value, env)
            if isinstance(s.target, (ast.Subscript, ast.Attribute)):
                self.site('augstore', s.target, env, s)
            else:
                self.site('augassign-name', s.target, env, s)
            return env
        if isinstance(s, ast.Delete):
            for t in s.targets:
                if isinstance(t, (ast.Subscript, ast.Attribute)):
                    self.site('delete', t, env, s)
                elif isinstance(t, ast.Name):
                    env.pop(t.id, None)
            return env
        if isinstance(s, ast.Expr):
            self.scan_calls(s.value, env)
            return env
        if isinstance(s, ast.Return):
            if s.value is not None:
                self.scan_calls(s.value, env)
                vals = s.value.elts if isinstance(s.value, ast.Tuple) else [s.value]
                for v in vals:
                    self.returns |= self.org(v, env)
            return env
        if isinstance(s, (ast.Raise, ast.Assert)):
            for n in ast.iter_child_nodes(s):
                self.scan_calls(n, env)
            return env
        if isinstance(s, ast.If):
            self.scan_calls(s.test, env)
            ea = dict((k, set(v)) for k, v in env.items())
            eb = dict((k, set(v)) for k, v in env.items())
            t = s.test
            # `if x is not None:` / `if x is None:` -- on the branch where x is None it is an immutable fresh value
            if isinstance(t, ast.Compare) and len(t.ops) == 1 and isinstance(t.left, ast.Name) and isinstance(t.comparators[0], ast.Constant) \
                    and t.comparators[0].value is None and t.left.id in env:
                if isinstance(t.ops[0], ast.IsNot):
                    eb[t.left.id] = {FRESH}
                elif isinstance(t.ops[0], ast.Is):
                    ea[t.left.id] = {FRESH}
            a = self.block(s.body, ea)
            b = self.block(s.orelse, eb)
            return self.merge(a, b)
        if isinstance(s, (ast.For, ast.AsyncFor)):
            self.scan_calls(s.iter, env)
            cur = dict((k, set(v)) for k, v in env.items())
            saved = list(self.sites), dict(self.counter)
            for _ in range(12):                                # iterate the abstract state to a fixpoint (monotone: bindings accumulate)
                self.bind_iter(s.target, s.iter, cur)
                self.sites, self.counter = list(saved[0]), dict(saved[1])
                after = self.block(s.body, dict((k, set(v)) for k, v in cur.items()))
                new = self.merge(cur, after)
                if new == cur:
                    break
                cur = new
            else:
                raise TranslationError('%s.%s: loop analysis did not stabilise' % (self.mod, self.fn))
            return self.merge(cur, self.block(s.orelse, dict((k, set(v)) for k, v in cur.items())))
        if isinstance(s, ast.While):
            self.scan_calls(s.test, env)
            cur = dict((k, set(v)) for k, v in env.items())
            saved = list(self.sites), dict(self.counter)
            for _ in range(12):
                self.sites, self.counter = list(saved[0]), dict(saved[1])
                after = self.block(s.body, dict((k, set(v)) for k, v in cur.items()))
                new = self.merge(cur, after)
                if new == cur:
                    break
                cur = new
            else:
                raise TranslationError('%s.%s: loop analysis did not stabilise' % (self.mod, self.fn))
            return self.merge(cur, self.block(s.orelse, dict((k, set(v)) for k, v in cur.items())))
        if isinstance(s, (ast.With, ast.AsyncWith)):
            for it in s.items:
                self.scan_calls(it.context_expr, env)
                if it.optional_vars is not None:
                    self.bind(it.optional_vars, {FRESH}, env)
            return self.block(s.body, env)
        if isinstance(s, ast.Try):
            a = self.block(s.body, dict((k, set(v)) for k, v in env.items()))
            out = self.merge(env, a)
            for h in s.handlers:
                henv = dict((k, set(v)) for k, v in out.items())
                if h.name:
                    henv[h.name] = {FRESH}
                out = self.merge(out, self.block(h.body, henv))
            out = self.block(s.orelse, out)
            return self.block(s.finalbody, out)
        raise TranslationError('%s.%s: statement outside the accepted fragment: %s' % (self.mod, self.fn, type(s).__name__))


def empty_buffers(fn):
    """np.empty buffers and, for every `if` with an else inside a loop, which of them each branch stores into."""
    bufs = set()
    for n in ast.walk(fn):
        if isinstance(n, ast.Assign) and isinstance(n.value, ast.Call) and dotted(n.value.func) in ('np.empty', 'np.empty_like'):
            for t in n.targets:
                if isinstance(t, ast.Name):
                    bufs.add(t.id)
    rows = []
    if not bufs:
        return rows

    def stored(stmts):
        out = set()
        for st in stmts:
            for n in ast.walk(st):
                if isinstance(n, (ast.Assign, ast.AugAssign)):
                    ts = n.targets if isinstance(n, ast.Assign) else [n.target]
                    for t in ts:
                        for tt in (t.elts if isinstance(t, (ast.Tuple, ast.List)) else [t]):
                            if isinstance(tt, ast.Subscript) and isinstance(tt.value, ast.Name) and tt.value.id in bufs:
                                out.add(tt.value.id)
        return out
    for loop in ast.walk(fn):
        if isinstance(loop, (ast.For, ast.While)):
            for n in ast.walk(loop):
                if isinstance(n, ast.If):
                    # an `if` without `else` stores nothing on the other path
                    a, b = stored(n.body), stored(n.orelse)
                    if a or b:
                        rows.append((sorted(bufs), sorted(a), sorted(b)))
            direct = stored([x for x in loop.body if not isinstance(x, ast.If)])
            if direct:
                rows.append((sorted(bufs), sorted(direct), sorted(direct)))
    return rows


def cstr(s):
    return '"' + s.replace('"', '""').replace('\n', ' ') + '"'


def lst(xs):
    return '[' + '; '.join(xs) + ']'


def analyse(m, name, fn, module_names, imports, outer_env):
    a = fn.args
    env = dict((k, set(v)) for k, v in outer_env.items())
    for x in a.posonlyargs + a.args + a.kwonlyargs:
        env[x.arg] = {'Param:' + x.arg}
    if a.vararg:
        env[a.vararg.arg] = {FRESH}
    if a.kwarg:
        env[a.kwarg.arg] = {KW}
    f = Fn(m, name, module_names, imports)
    f.final = f.block(fn.body, env)
    return f


def generate():
    site_rows, buf_rows, state_rows = [], [], []
    nfun = 0
    mods_funcs = []
    Fn.fresh_funcs = set()

    def emit(m, name, f, fn):
        for kind, target, k, org, text in f.sites:
            site_rows.append('mk_site %s %s %s %s %d %s %s' % (cstr(m), cstr(name), cstr(kind), cstr(target), k, lst([cstr(o) for o in org]), cstr(text)))
        for bufs, x, y in empty_buffers(fn):
            buf_rows.append('(%s, %s, %s, %s, %s)' % (cstr(m), cstr(name), lst([cstr(b) for b in bufs]), lst([cstr(b) for b in x]), lst([cstr(b) for b in y])))
    for m in MODULES:
        p = os.path.join(REPO, 'mir_eval', m + '.py')
        try:
            tree = ast.parse(open(p).read())
        except (OSError, SyntaxError) as e:
            raise TranslationError('cannot parse %s: %s' % (p, e))
        imports = set()
        module_names = set()
        for n in tree.body:
            if isinstance(n, ast.Import):
                for a in n.names:
                    imports.add((a.asname or a.name).split('.')[0])
            elif isinstance(n, ast.ImportFrom):
                for a in n.names:
                    imports.add(a.asname or a.name)
            elif isinstance(n, ast.Assign):
                for t in n.targets:
                    for x in ast.walk(t):
                        if isinstance(x, ast.Name):
                            module_names.add(x.id)
                # module-level mutable containers are potential state
                for t in n.targets:
                    if isinstance(t, ast.Name) and isinstance(n.value, (ast.Dict, ast.List, ast.Set, ast.Call)):
                        kind = 'container' if isinstance(n.value, (ast.Dict, ast.List, ast.Set)) else 'call'
                        state_rows.append('(%s, %s, %s)' % (cstr(m), cstr(t.id), cstr(kind)))
            elif isinstance(n, (ast.FunctionDef, ast.ClassDef)):
                imports.add(n.name)
        funcs = []
        for n in tree.body:
            if isinstance(n, ast.FunctionDef):
                funcs.append((n.name, n))
            elif isinstance(n, ast.ClassDef):
                for k in n.body:
                    if isinstance(k, ast.FunctionDef):
                        funcs.append((n.name + '.' + k.name, k))
        # nested function definitions are analysed as functions of their own (their free variables are Unknown)
        extra = []
        for name, fn in funcs:
            for k in ast.walk(fn):
                if isinstance(k, ast.FunctionDef) and k is not fn:
                    extra.append((name + '.<locals>.' + k.name, k))
        mods_funcs.append((m, funcs, extra, module_names, imports))
    # pass 1..3: which functions return only fresh values (fixpoint from the empty set: monotone, conservative)
    Fn.ret_summary = {}
    for _ in range(6):
        new_fresh = set()
        new_sum = {}
        for m, funcs, extra, module_names, imports in mods_funcs:
            for name, fn in funcs:
                f = analyse(m, name, fn, module_names, imports, {})
                if f.returns and f.returns <= {FRESH}:
                    new_fresh.add(name)
                    new_fresh.add(m + '.' + name)
                elif f.returns:
                    new_sum[m + '.' + name] = set(f.returns)
                    new_sum.setdefault(name, set()).update(f.returns)     # same bare name in several modules: union (conservative)
        if new_fresh == Fn.fresh_funcs and new_sum == Fn.ret_summary:
            break
        Fn.fresh_funcs = new_fresh
        Fn.ret_summary = new_sum
    for m, funcs, extra, module_names, imports in mods_funcs:
        final_env = {}
        for name, fn in funcs:
            nfun += 1
            f = analyse(m, name, fn, module_names, imports, {})
            final_env[name] = f.final
            emit(m, name, f, fn)
        for name, fn in extra:
            nfun += 1
            outer = name.split('.<locals>.')[0]
            f = analyse(m, name, fn, module_names, imports, final_env.get(outer, {}))
            emit(m, name, f, fn)
    t = HEADER + 'From Coq Require Import List String.\nFrom ME Require Import Model.Purity.\nImport ListNotations.\nOpen Scope string_scope.\n'
    t += '(* %d functions of %d modules analysed *)\n' % (nfun, len(MODULES))
    t += 'Definition functions_analysed : nat := %d.\n' % nfun
    t += 'Definition write_sites : list site :=\n [ %s ].\n' % ';\n   '.join(site_rows)
    t += '(* (module, function, np.empty buffers, buffers stored in one branch, buffers stored in the other branch) *)\n'
    t += 'Definition buffer_branches : list (string * string * list string * list string * list string) :=\n [ %s ].\n' % ';\n   '.join(buf_rows)
    t += '(* module-level names bound to containers or call results *)\n'
    t += 'Definition module_objects : list (string * string * string) :=\n [ %s ].\n' % ';\n   '.join(state_rows)
    return {'WriteSites.v': t}
