"""The beat metrics of mir_eval/beat.py -> coq/Gen/BeatGen.v
(function bodies as programs of the Python / NumPy sub-language of coq/Model/BeatExp.v).

  trim_beats, _get_reference_beat_variations, cemgil, goto, continuity

This file maps syntax only (Python ast; mir_eval is never imported; anything outside the fragment raises
TranslationError). What an operator / NumPy function does on each type of value is defined by the evaluator of
Model/BeatExp.v; Proofs/BeatTie.v proves every generated program equal to the hand-written model function of
Model/Beat.v for all inputs, with the callees (validate, _get_reference_beat_variations) instantiated by the model.

Accepted fragment
  def          positional-or-keyword parameters, defaults = literal (None / bool / int / float); no decorator,
               *args, **kwargs, annotations
  statements   x = e | x op= e (op: + - * /) | x[i] = e | x.append(e) | validate(...) | warnings.warn(<str literal>) |
               if / elif / else | for <name> in e: (no else / break / continue) | return [e] | pass
               (no statement after a return in the same block)
  expressions  parameters and locals, None / bool / int / float literals, np.inf, tuples, lists,
               one comparison (== != < <= > >=), not / and / or, + - * / // **, unary -, e[i], e[lo:hi:step],
               e.size, e.shape, e.sum() e.min() e.max(), range(...),
               np.<f>(positional arguments) for f in NP, np.std(e, ddof=k),
               calls of FUNCS / PRIMS (opaque callees, arguments as written: positional and keyword).
What this file decides itself
  * which names are locals (assigned anywhere in the body); that `np` is numpy, `warnings` is warnings, that every
    callee has exactly one top-level def and is not rebound, that the names given a fixed meaning are not shadowed;
  * the aliasing side condition of in-place writes: x[i] = e and x.append(e) are accepted only if x is a local all
    of whose bindings create a new object (a NumPy call of NP, a list literal, arithmetic) or re-slice x itself,
    and x occurs elsewhere only where a new value is computed from it (operand, index base, argument of a NumPy
    function, .shape / .size / reduction method); a slice of x (a NumPy view) other than `x = x[...]` is accepted only
    if every write to x precedes it and no loop contains both (so the view and the evaluator's copy agree).
"""
import ast
from fractions import Fraction
from .common import module, top_func, TranslationError, HEADER

OUTPUTS = ['BeatGen.v']

FUNCS = ['trim_beats', '_get_reference_beat_variations', 'cemgil', 'goto', 'continuity']
PRIMS = ['validate']                   # opaque callees that this module does not translate (signature read from the source)
# NumPy functions taken with positional arguments only: name -> allowed numbers of arguments. All return new objects.
NP = {'abs': {1}, 'argmin': {1}, 'zeros': {1}, 'ones': {1}, 'max': {1}, 'min': {1}, 'append': {2}, 'nonzero': {1},
      'flatnonzero': {1}, 'diff': {1}, 'sum': {1}, 'mean': {1}, 'logical_and': {2}, 'arange': {2, 3}, 'interp': {3},
      'exp': {1}}
METHODS = {'sum', 'min', 'max'}
ATTRS = {'size', 'shape'}
CMP = {ast.Eq: 'Eq', ast.NotEq: 'Ne', ast.Lt: 'Lt', ast.LtE: 'Le', ast.Gt: 'Gt', ast.GtE: 'Ge'}
BIN = {ast.Add: 'Add', ast.Sub: 'Sub', ast.Mult: 'Mul', ast.Div: 'Div', ast.FloorDiv: 'FloorDiv', ast.Pow: 'Pow'}
AUG = {ast.Add: 'Add', ast.Sub: 'Sub', ast.Mult: 'Mul', ast.Div: 'Div'}
RESERVED = {'np', 'warnings', 'range', 'util', 'True', 'False', 'None'} | set(FUNCS) | set(PRIMS)


def fail(msg, node=None):
    where = ''
    if node is not None:
        where = ' at line %s: %s' % (getattr(node, 'lineno', '?'), ast.unparse(node)[:160])
    raise TranslationError('beatfuncs: ' + msg + where)


def cstr(s):
    if not (isinstance(s, str) and s.replace('.', '_').isidentifier() and s.isascii()):
        fail('unusual name %r' % (s,))
    return '"%s"' % s


def cz(n):
    if isinstance(n, bool) or not isinstance(n, int) or abs(n) >= 2 ** 62:
        fail('unsupported integer literal %r' % (n,))
    return '(%d)%%Z' % n


def cq(x):
    """the exact binary value of a float literal"""
    if not isinstance(x, float) or x != x or x in (float('inf'), float('-inf')):
        fail('unsupported float literal %r' % (x,))
    f = Fraction(x)
    if f.numerator < 0:
        return '((%d)#%d)%%Q' % (f.numerator, f.denominator)
    return '(%d#%d)%%Q' % (f.numerator, f.denominator)


def clist(items):
    return '[' + '; '.join(items) + ']'


def copt(x):
    return 'None' if x is None else '(Some %s)' % x


# ----------------------------------------------------------------------------- module-level checks
def check_module(tree):
    tops = {}
    for n in tree.body:
        if isinstance(n, (ast.FunctionDef, ast.ClassDef, ast.AsyncFunctionDef)):
            tops.setdefault(n.name, []).append(n)
        elif isinstance(n, (ast.Import, ast.ImportFrom)):
            for a in n.names:
                tops.setdefault((a.asname or a.name).split('.')[0], []).append(n)
        elif isinstance(n, (ast.Assign, ast.AugAssign, ast.AnnAssign)):
            for t in (n.targets if isinstance(n, ast.Assign) else [n.target]):
                for m in ast.walk(t):
                    if isinstance(m, ast.Name):
                        tops.setdefault(m.id, []).append(n)
        elif isinstance(n, ast.Expr) and isinstance(n.value, ast.Constant):
            pass
        else:
            fail('module-level statement other than import / def / assignment (names may be rebound)', n)
    np_ok = [n for n in tops.get('np', []) if isinstance(n, ast.Import) and len(n.names) == 1
             and n.names[0].name == 'numpy' and n.names[0].asname == 'np']
    if len(tops.get('np', [])) != 1 or len(np_ok) != 1:
        fail('`np` is not bound exactly once by `import numpy as np`')
    w = tops.get('warnings', [])
    if len(w) != 1 or not (isinstance(w[0], ast.Import) and len(w[0].names) == 1 and w[0].names[0].name == 'warnings'
                           and w[0].names[0].asname is None):
        fail('`warnings` is not bound exactly once by `import warnings`')
    if 'range' in tops:
        fail('builtin range is rebound at module level')
    for f in FUNCS + PRIMS:
        if len(tops.get(f, [])) != 1 or not isinstance(tops[f][0], ast.FunctionDef):
            fail('%s is not bound exactly once, by a top-level def' % f)
    watched = set(FUNCS) | set(PRIMS) | {'np', 'warnings', 'range'}
    for n in ast.walk(tree):
        if isinstance(n, (ast.Global, ast.Nonlocal)) and watched & set(n.names):
            fail('global / nonlocal declaration of a name with a fixed meaning', n)
        if isinstance(n, ast.Name) and n.id in watched and isinstance(n.ctx, (ast.Store, ast.Del)):
            fail('second binding of the name %s' % n.id, n)
        if isinstance(n, ast.Attribute) and isinstance(n.ctx, (ast.Store, ast.Del)) and isinstance(n.value, ast.Name) \
                and n.value.id in watched:
            fail('attribute of %s is rebound' % n.value.id, n)
        if isinstance(n, ast.arg) and n.arg in watched:
            fail('a parameter shadows %s' % n.arg, n)


# ----------------------------------------------------------------------------- one function
class Fn:
    def __init__(self, node):
        self.node = node
        self.name = node.name
        a = node.args
        if node.decorator_list or a.posonlyargs or a.kwonlyargs or a.vararg or a.kwarg or node.returns is not None:
            fail('%s: unexpected signature or decorator' % self.name, node)
        self.params = [x.arg for x in a.args]
        if any(x.annotation is not None for x in a.args):
            fail('%s: annotated parameter' % self.name, node)
        nd = len(a.defaults)
        self.defaults = [None] * (len(self.params) - nd) + list(a.defaults)
        for sub in ast.walk(node):
            if sub is not node and isinstance(sub, (
                    ast.Lambda, ast.FunctionDef, ast.AsyncFunctionDef, ast.ClassDef, ast.Global, ast.Nonlocal, ast.NamedExpr,
                    ast.Await, ast.Yield, ast.YieldFrom, ast.While, ast.Try, ast.With, ast.Break, ast.Continue, ast.Delete,
                    ast.Import, ast.ImportFrom, ast.Starred, ast.SetComp, ast.DictComp, ast.ListComp, ast.GeneratorExp,
                    ast.AnnAssign, ast.JoinedStr, ast.Set, ast.Dict, ast.IfExp, ast.Raise, ast.Assert)):
                fail('%s: unsupported construct %s' % (self.name, type(sub).__name__), sub)
        self.locals = []                 # in the order of their first store in the text
        stores = [sub for sub in ast.walk(node) if isinstance(sub, ast.Name) and isinstance(sub.ctx, ast.Store)]
        for sub in sorted(stores, key=lambda m: (m.lineno, m.col_offset)):
            if sub.id not in self.params and sub.id not in self.locals:
                self.locals.append(sub.id)
        for x in self.params + self.locals:
            if not (x.isidentifier() and x.isascii()) or x in RESERVED:
                fail('%s: the local name %r shadows a name this translator gives a fixed meaning' % (self.name, x), node)
        if len(set(self.params)) != len(self.params):
            fail('%s: duplicate parameter' % self.name, node)
        self.body = list(node.body)
        if self.body and isinstance(self.body[0], ast.Expr) and isinstance(self.body[0].value, ast.Constant) \
                and isinstance(self.body[0].value.value, str):
            self.body = self.body[1:]
        self.analyse()

    # ---- aliasing analysis ----
    def fresh_expr(self, e, x):
        """e creates a new object, or re-slices x itself"""
        if isinstance(e, (ast.BinOp, ast.List)):
            return True
        if isinstance(e, ast.Call) and isinstance(e.func, ast.Attribute) and isinstance(e.func.value, ast.Name) \
                and e.func.value.id == 'np' and e.func.attr in NP:
            return True
        if isinstance(e, ast.Subscript) and isinstance(e.slice, ast.Slice) and isinstance(e.value, ast.Name) and e.value.id == x:
            return True
        return False

    def analyse(self):
        parent = {}
        for p in ast.walk(self.node):
            for c in ast.iter_child_nodes(p):
                parent[id(c)] = p
        # statements in preorder, each with the chain of its enclosing loops
        order = {}
        loops = {}

        def number(stmts, chain):
            for s in stmts:
                order[id(s)] = len(order)
                loops[id(s)] = chain
                if isinstance(s, ast.If):
                    number(s.body, chain)
                    number(s.orelse, chain)
                elif isinstance(s, ast.For):
                    number(s.body, chain + (id(s),))
        number(self.body, ())

        def stmt_of(n):
            while id(n) not in order:
                n = parent[id(n)]
            return n
        self.written = {}            # name -> list of writing statements
        for sub in ast.walk(self.node):
            if isinstance(sub, ast.Assign):
                for t in sub.targets:
                    if isinstance(t, ast.Subscript) and isinstance(t.value, ast.Name):
                        self.written.setdefault(t.value.id, []).append(sub)
            elif isinstance(sub, ast.AugAssign) and isinstance(sub.target, ast.Subscript) and isinstance(sub.target.value, ast.Name):
                self.written.setdefault(sub.target.value.id, []).append(sub)
            elif isinstance(sub, ast.Expr) and isinstance(sub.value, ast.Call) and isinstance(sub.value.func, ast.Attribute) \
                    and sub.value.func.attr == 'append' and isinstance(sub.value.func.value, ast.Name):
                self.written.setdefault(sub.value.func.value.id, []).append(sub)
        for x, writes in self.written.items():
            if x not in self.locals:
                fail('%s: in-place write into %r, which is not a local' % (self.name, x), writes[0])
            for sub in ast.walk(self.node):
                if isinstance(sub, ast.Assign) and any(isinstance(t, ast.Name) and t.id == x for t in sub.targets):
                    if not self.fresh_expr(sub.value, x):
                        fail('%s: %r is written in place but bound to something that may be shared' % (self.name, x), sub)
                if isinstance(sub, ast.AugAssign) and isinstance(sub.target, ast.Name) and sub.target.id == x:
                    fail('%s: augmented assignment to %r, which is written in place' % (self.name, x), sub)
                if isinstance(sub, ast.For) and any(isinstance(m, ast.Name) and m.id == x for m in ast.walk(sub.target)):
                    fail('%s: %r is written in place but bound by a loop' % (self.name, x), sub)
                if not (isinstance(sub, ast.Name) and sub.id == x and isinstance(sub.ctx, ast.Load)):
                    continue
                p = parent[id(sub)]
                ok = False
                if isinstance(p, ast.Subscript) and p.value is sub:
                    if isinstance(p.slice, ast.Slice):
                        gp = parent[id(p)]
                        if isinstance(gp, ast.Assign) and gp.value is p and len(gp.targets) == 1 \
                                and isinstance(gp.targets[0], ast.Name) and gp.targets[0].id == x:
                            ok = True                      # x = x[lo:hi]
                        else:
                            s = stmt_of(sub)
                            ok = all(order[id(w)] < order[id(s)] and not (set(loops[id(w)]) & set(loops[id(s)]))
                                     for w in writes)
                            if not ok:
                                fail('%s: a slice (view) of %r is taken where a later write to %r could show through it'
                                     % (self.name, x, x), p)
                    else:
                        ok = True                          # x[i], x[mask]: a scalar or a copy
                elif isinstance(p, (ast.BinOp, ast.Compare, ast.UnaryOp)):
                    ok = True
                elif isinstance(p, ast.Attribute) and p.value is sub and (p.attr in ATTRS or p.attr in METHODS or p.attr == 'append'):
                    ok = True
                elif isinstance(p, ast.Call) and sub in p.args and isinstance(p.func, ast.Attribute) \
                        and isinstance(p.func.value, ast.Name) and p.func.value.id == 'np' and p.func.attr in (set(NP) | {'std'}):
                    ok = True
                if not ok:
                    fail('%s: %r is written in place and may become shared here' % (self.name, x), p)

    # ---- expressions ----
    def ex(self, n):
        if isinstance(n, ast.Constant):
            c = n.value
            if c is None:
                return 'ENone'
            if isinstance(c, bool):
                return '(EBool %s)' % ('true' if c else 'false')
            if isinstance(c, int):
                return '(EInt %s)' % cz(c)
            if isinstance(c, float):
                return '(EFloat %s)' % cq(c)
            fail('unsupported literal', n)
        if isinstance(n, ast.Name):
            if not isinstance(n.ctx, ast.Load):
                fail('unexpected store', n)
            if n.id in self.params or n.id in self.locals:
                return '(ELoc %s)' % cstr(n.id)
            fail('name %r is not a parameter or a local' % n.id, n)
        if isinstance(n, ast.Tuple):
            return '(ETuple %s)' % clist([self.ex(x) for x in n.elts])
        if isinstance(n, ast.List):
            return '(EList %s)' % clist([self.ex(x) for x in n.elts])
        if isinstance(n, ast.UnaryOp):
            if isinstance(n.op, ast.Not):
                return '(ENot %s)' % self.ex(n.operand)
            if isinstance(n.op, ast.USub):
                return '(ENeg %s)' % self.ex(n.operand)
            fail('unsupported unary operator', n)
        if isinstance(n, ast.BoolOp):
            comb = 'EAnd' if isinstance(n.op, ast.And) else 'EOr'
            parts = [self.ex(x) for x in n.values]
            out = parts[-1]
            for p in reversed(parts[:-1]):
                out = '(%s %s %s)' % (comb, p, out)
            return out
        if isinstance(n, ast.Compare):
            if len(n.ops) != 1:
                fail('chained comparison', n)
            op, a, b = n.ops[0], n.left, n.comparators[0]
            if type(op) in CMP:
                return '(ECmp %s %s %s)' % (CMP[type(op)], self.ex(a), self.ex(b))
            fail('unsupported comparison', n)
        if isinstance(n, ast.BinOp):
            if type(n.op) not in BIN:
                fail('unsupported binary operator', n)
            return '(EBin %s %s %s)' % (BIN[type(n.op)], self.ex(n.left), self.ex(n.right))
        if isinstance(n, ast.Subscript):
            if not isinstance(n.ctx, ast.Load):
                fail('unexpected store', n)
            if isinstance(n.slice, ast.Slice):
                s = n.slice
                return '(ESlice %s %s %s %s)' % (self.ex(n.value), copt(None if s.lower is None else self.ex(s.lower)),
                                                 copt(None if s.upper is None else self.ex(s.upper)),
                                                 copt(None if s.step is None else self.ex(s.step)))
            if isinstance(n.slice, ast.Tuple):
                fail('multi-dimensional index', n)
            return '(EIndex %s %s)' % (self.ex(n.value), self.ex(n.slice))
        if isinstance(n, ast.Attribute):
            if not isinstance(n.ctx, ast.Load):
                fail('unexpected store', n)
            if isinstance(n.value, ast.Name) and n.value.id == 'np':
                if n.attr == 'inf':
                    return 'EInf'
                fail('unsupported NumPy constant', n)
            if n.attr in ATTRS:
                return '(EAttr %s %s)' % (self.ex(n.value), cstr(n.attr))
            fail('unsupported attribute', n)
        if isinstance(n, ast.Call):
            return self.call(n)
        fail('expression outside the accepted fragment', n)

    def call(self, n):
        f = n.func
        if isinstance(f, ast.Name):
            if f.id in self.params or f.id in self.locals:
                fail('call of a local', n)
            if f.id == 'range':
                if n.keywords or not 1 <= len(n.args) <= 2:
                    fail('range with unexpected arguments', n)
                return '(ENp "range" %s)' % clist([self.ex(x) for x in n.args])
            if f.id in FUNCS or f.id in PRIMS:
                kws = []
                for k in n.keywords:
                    if k.arg is None:
                        fail('**kwargs in a call', n)
                    kws.append('(%s, %s)' % (cstr(k.arg), self.ex(k.value)))
                return '(ECall %s %s %s)' % (cstr(f.id), clist([self.ex(x) for x in n.args]), clist(kws))
            fail('call of an unknown function %r' % f.id, n)
        if isinstance(f, ast.Attribute):
            if isinstance(f.value, ast.Name) and f.value.id == 'np':
                if f.attr == 'std':
                    if len(n.args) != 1 or len(n.keywords) != 1 or n.keywords[0].arg != 'ddof':
                        fail('np.std is accepted as np.std(<array>, ddof=<k>) only', n)
                    return '(ENp "np.std_ddof" %s)' % clist([self.ex(n.args[0]), self.ex(n.keywords[0].value)])
                if f.attr in NP:
                    if n.keywords or len(n.args) not in NP[f.attr]:
                        fail('np.%s with unexpected arguments' % f.attr, n)
                    return '(ENp %s %s)' % (cstr('np.' + f.attr), clist([self.ex(x) for x in n.args]))
                fail('unsupported NumPy function np.%s' % f.attr, n)
            if isinstance(f.value, ast.Name) and f.value.id in ('warnings', 'util'):
                fail('unsupported library call', n)
            if f.attr in METHODS:
                if n.keywords or n.args:
                    fail('method %s with arguments' % f.attr, n)
                return '(EMeth %s %s [])' % (self.ex(f.value), cstr(f.attr))
            fail('unsupported method %s' % f.attr, n)
        fail('unsupported call', n)

    # ---- statements ----
    def block(self, stmts, ind):
        out = []
        for i, s in enumerate(stmts):
            out.extend(self.stmt(s, ind))
            if isinstance(s, ast.Return) and i + 1 < len(stmts):
                fail('statement after return', stmts[i + 1])
        return out

    def fmt_block(self, items, ind):
        pad = '\n' + '  ' * (ind + 1)
        if not items:
            return '[]'
        return '[' + pad + (';' + pad).join(items) + ']'

    def stmt(self, s, ind):
        if isinstance(s, ast.Pass):
            return ['SPass']
        if isinstance(s, ast.Expr):
            v = s.value
            if isinstance(v, ast.Call) and isinstance(v.func, ast.Attribute) and isinstance(v.func.value, ast.Name) \
                    and v.func.value.id == 'warnings' and v.func.attr == 'warn':
                if v.keywords or len(v.args) != 1 or not (isinstance(v.args[0], ast.Constant) and isinstance(v.args[0].value, str)):
                    fail('warnings.warn is accepted with one string literal only', s)
                return ['SWarn']
            if isinstance(v, ast.Call) and isinstance(v.func, ast.Attribute) and v.func.attr == 'append':
                x = v.func.value
                if not isinstance(x, ast.Name) or x.id not in self.locals or v.keywords or len(v.args) != 1:
                    fail('x.append(e) is accepted on a local only, with one argument', s)
                return ['SAppend %s %s' % (cstr(x.id), self.ex(v.args[0]))]
            if isinstance(v, ast.Call) and isinstance(v.func, ast.Name) and (v.func.id in FUNCS or v.func.id in PRIMS):
                return ['SExpr %s' % self.ex(v)]
            fail('expression statement that is not a call of a known function', s)
        if isinstance(s, ast.Assign):
            if len(s.targets) != 1:
                fail('chained assignment', s)
            t = s.targets[0]
            if isinstance(t, ast.Name):
                return ['SAssign %s %s' % (cstr(t.id), self.ex(s.value))]
            if isinstance(t, ast.Subscript) and isinstance(t.value, ast.Name):
                if isinstance(t.slice, (ast.Slice, ast.Tuple)):
                    fail('slice / multi-dimensional assignment', s)
                if t.value.id not in self.written:
                    fail('internal: unanalysed write', s)
                return ['SSetItem %s %s %s' % (cstr(t.value.id), self.ex(t.slice), self.ex(s.value))]
            fail('unsupported assignment target', s)
        if isinstance(s, ast.AugAssign):
            if not isinstance(s.target, ast.Name) or type(s.op) not in AUG:
                fail('unsupported augmented assignment', s)
            return ['SAug %s %s %s' % (cstr(s.target.id), AUG[type(s.op)], self.ex(s.value))]
        if isinstance(s, ast.If):
            a = self.block(s.body, ind + 1)
            b = self.block(s.orelse, ind + 1)
            return ['SIf %s %s %s' % (self.ex(s.test), self.fmt_block(a, ind + 1), self.fmt_block(b, ind + 1))]
        if isinstance(s, ast.For):
            if s.orelse:
                fail('for ... else', s)
            if not isinstance(s.target, ast.Name):
                fail('unsupported loop target', s)
            body = self.block(s.body, ind + 1)
            return ['SFor %s %s %s' % (cstr(s.target.id), self.ex(s.iter), self.fmt_block(body, ind + 1))]
        if isinstance(s, ast.Return):
            return ['SReturn %s' % ('ENone' if s.value is None else self.ex(s.value))]
        fail('statement outside the accepted fragment', s)

    def coq_params(self):
        ps = []
        for p, d in zip(self.params, self.defaults):
            if d is None:
                ps.append('(%s, None)' % cstr(p))
            else:
                if not (isinstance(d, ast.Constant) and (d.value is None or isinstance(d.value, (bool, int, float)))):
                    fail('%s: default of %s is not a literal' % (self.name, p), d)
                ps.append('(%s, Some %s)' % (cstr(p), self.ex(d)))
        return clist(ps)

    def coq(self):
        body = self.block(self.body, 1)
        return ('{| f_params := %s;\n     f_locals := %s;\n     f_body := %s |}'
                % (self.coq_params(), clist([cstr(x) for x in self.locals]), self.fmt_block(body, 2)))


def prim_sig(node):
    a = node.args
    if node.decorator_list or a.posonlyargs or a.kwonlyargs or a.vararg or a.kwarg or a.defaults:
        fail('%s: unexpected signature or decorator' % node.name, node)
    return clist(['(%s, None)' % cstr(x.arg) for x in a.args])


def generate():
    tree = module('beat')
    check_module(tree)
    fns = {f: Fn(top_func(tree, f)) for f in FUNCS}
    t = HEADER
    t += '(* the beat metrics of mir_eval/beat.py as programs of Model/BeatExp.v *)\n'
    t += 'From Coq Require Import String.\nFrom Coq Require Import List ZArith QArith.\n'
    t += 'From ME Require Import Model.Prelude Model.BeatExp.\nImport ListNotations.\nLocal Open Scope string_scope.\n'
    for f in FUNCS:
        t += '(* beat.%s *)\nDefinition gen_%s : fdef :=\n  %s.\n' % (f, f.lstrip('_'), fns[f].coq())
    t += '(* every function with its signature source; the callees that are not translated here *)\n'
    t += 'Definition beat_funs : list (string * fdef) :=\n  %s.\n' % clist(['(%s, gen_%s)' % (cstr(f), f.lstrip('_')) for f in FUNCS])
    t += 'Definition beat_prims : list (string * list (string * option exp)) :=\n  %s.\n' % clist(
        ['(%s, %s)' % (cstr(p), prim_sig(top_func(tree, p))) for p in PRIMS])
    return {'BeatGen.v': t}
