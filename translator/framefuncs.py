"""The frame pre-processing and counting helpers of mir_eval/multipitch.py and mir_eval/melody.py -> coq/Gen/FrameGen.v
(function bodies as programs of the Python / NumPy sub-language of coq/Model/FrameExp.v).

  multipitch: compute_num_freqs, compute_num_true_positives, midi_to_chroma, frequencies_to_midi, resample_multipitch,
              and the PREFIX of metrics: every statement before the first one that calls compute_accuracy (the rest is
              translated by translator/wrapfuncs.py as gen_mp_metrics_assembly), closed by a synthetic
              `return (<the variables of the prefix that the rest reads, in binding order>)`
  melody:     freq_to_voicing, to_cent_voicing, resample_melody_series, constant_hop_timebase, hz2cents

This file maps syntax only (Python ast; mir_eval is never imported; anything outside the fragment raises
TranslationError). What an operator / NumPy function does on each type of value is defined by the evaluator of
Model/FrameExp.v; Proofs/FrameTie*.v prove every generated program equal to the hand-written model function for all inputs.

Accepted fragment
  def          positional-or-keyword parameters, defaults = literal (None / bool / int / float / str); optionally **kwargs;
               no decorator, *args, annotations
  statements   <target> = e (target: name or nested tuple of names) | x[i] = e | x *= e (x written in place) |
               <call of a known function> | warnings.warn(<str literals>) | if / elif / else |
               for <target> in e: (no else / break / continue) | return [e] | pass  (no statement after a return in a block)
  expressions  parameters and locals, None / bool / int / float / str literals, tuples, lists,
               one comparison (== != < <= > >=), `is None` / `is not None`, not / and / or, + - * /, unary -,
               e[i], e[lo:hi], e.size, e.shape, e.astype(int|float), e.max(), len / enumerate / zip,
               np.<f>(arguments as written) for f in NP, np.array(e, dtype=float), [e for <target> in e],
               scipy.interpolate.interp1d(<arguments as written>)(e),
               calls of FUNCS / PRIMS (opaque callees; arguments as written: positional, keyword, **name),
               util.filter_kwargs(<known function>, arguments as written), util.<function> as a value (keyword argument).
What this file decides itself
  * which names are locals; that `np`, `scipy`, `warnings`, `util` are the imported modules, that every callee has
    exactly one top-level def and is not rebound, that the names given a fixed meaning are not shadowed;
  * the aliasing side condition of in-place writes (x[i] = e, x *= e): accepted only if every binding of x that can
    reach the write creates a new object (a NumPy call that allocates, arithmetic) and x occurs elsewhere only where
    a new value is computed from it or where it is returned; for a parameter x the write must follow, in the same
    block, an assignment `x = <fresh>` (so the caller's object is never written).
"""
import ast
from fractions import Fraction
from .common import module, top_func, TranslationError, HEADER

OUTPUTS = ['FrameGen.v']

# (module, function, mode)
SPEC = [('multipitch', 'compute_num_freqs', 'full'),
        ('multipitch', 'compute_num_true_positives', 'full'),
        ('multipitch', 'midi_to_chroma', 'full'),
        ('multipitch', 'frequencies_to_midi', 'full'),
        ('multipitch', 'resample_multipitch', 'full'),
        ('multipitch', 'metrics', ('prefix', 'compute_accuracy')),
        ('melody', 'freq_to_voicing', 'full'),
        ('melody', 'to_cent_voicing', 'full'),
        ('melody', 'resample_melody_series', 'full'),
        ('melody', 'constant_hop_timebase', 'full'),
        ('melody', 'hz2cents', 'full')]
# opaque callees that this file does not translate (signature read from the source)
PRIMS = [('multipitch', 'validate'), ('util', 'match_events'), ('util', '_outer_distance_mod_n'),
         ]
# NumPy functions: arguments are emitted as written and bound in Coq (FrameExp.np_sigs). All return new objects.
NP = {'array', 'zeros', 'arange', 'mod', 'log2', 'abs', 'allclose', 'insert', 'append', 'diff', 'round', 'all', 'logical_or', 'equal', 'floor', 'linspace', 'flatnonzero'}
NP_FRESH = {'array', 'zeros', 'arange', 'mod', 'log2', 'abs', 'insert', 'append', 'diff', 'round', 'logical_or', 'equal', 'linspace', 'flatnonzero'}
BUILTINS = {'len': 1, 'enumerate': 1, 'zip': 2, 'int': 1}
ATTRS = {'size', 'shape'}
CMP = {ast.Eq: 'Eq', ast.NotEq: 'Ne', ast.Lt: 'Lt', ast.LtE: 'Le', ast.Gt: 'Gt', ast.GtE: 'Ge'}
BIN = {ast.Add: 'Add', ast.Sub: 'Sub', ast.Mult: 'Mul', ast.Div: 'Div'}
FIXED = {'np', 'scipy', 'warnings', 'util', 'len', 'enumerate', 'zip', 'int', 'float', 'True', 'False', 'None'}


def fail(msg, node=None):
    where = ''
    if node is not None:
        where = ' at line %s: %s' % (getattr(node, 'lineno', '?'), ast.unparse(node)[:160])
    raise TranslationError('framefuncs: ' + msg + where)


def cstr(s):
    if not (isinstance(s, str) and s.replace('.', '_').isidentifier() and s.isascii()):
        fail('unusual name %r' % (s,))
    return '"%s"' % s


def cz(n):
    if isinstance(n, bool) or not isinstance(n, int) or abs(n) >= 2 ** 62:
        fail('unsupported integer literal %r' % (n,))
    return '(%d)%%Z' % n


def cq(x):
    """the exact binary value of a float literal"""
    if not isinstance(x, float) or x != x or x in (float('inf'), float('-inf')):
        fail('unsupported float literal %r' % (x,))
    f = Fraction(x)
    if f.numerator < 0:
        return '((%d)#%d)%%Q' % (f.numerator, f.denominator)
    return '(%d#%d)%%Q' % (f.numerator, f.denominator)


def clist(items):
    return '[' + '; '.join(items) + ']'


def copt(x):
    return 'None' if x is None else '(Some %s)' % x


# ----------------------------------------------------------------------------- module-level checks
def check_module(tree, modname, funcs):
    tops = {}
    for n in tree.body:
        if isinstance(n, (ast.FunctionDef, ast.ClassDef, ast.AsyncFunctionDef)):
            tops.setdefault(n.name, []).append(n)
        elif isinstance(n, (ast.Import, ast.ImportFrom)):
            for a in n.names:
                tops.setdefault((a.asname or a.name).split('.')[0], []).append(n)
        elif isinstance(n, (ast.Assign, ast.AugAssign, ast.AnnAssign)):
            for t in (n.targets if isinstance(n, ast.Assign) else [n.target]):
                for m in ast.walk(t):
                    if isinstance(m, ast.Name):
                        tops.setdefault(m.id, []).append(n)
        elif isinstance(n, ast.Expr) and isinstance(n.value, ast.Constant):
            pass
        else:
            fail('%s: module-level statement other than import / def / assignment (names may be rebound)' % modname, n)

    def one(name, ok):
        b = tops.get(name, [])
        if len(b) != 1 or not ok(b[0]):
            fail('%s: `%s` is not bound exactly once by the expected import' % (modname, name))
    one('np', lambda n: isinstance(n, ast.Import) and len(n.names) == 1 and n.names[0].name == 'numpy' and n.names[0].asname == 'np')
    one('warnings', lambda n: isinstance(n, ast.Import) and len(n.names) == 1 and n.names[0].name == 'warnings'
        and n.names[0].asname is None)
    one('scipy', lambda n: isinstance(n, ast.Import) and len(n.names) == 1 and n.names[0].name == 'scipy.interpolate'
        and n.names[0].asname is None)
    one('util', lambda n: isinstance(n, ast.ImportFrom) and n.module is None and n.level == 1 and len(n.names) == 1
        and n.names[0].name == 'util' and n.names[0].asname is None)
    for b in list(BUILTINS) + ['int', 'float']:
        if b in tops:
            fail('%s: builtin %s is rebound at module level' % (modname, b))
    for f in funcs:
        if len(tops.get(f, [])) != 1 or not isinstance(tops[f][0], ast.FunctionDef):
            fail('%s.%s is not bound exactly once, by a top-level def' % (modname, f))
    watched = set(funcs) | {'np', 'warnings', 'scipy', 'util'} | set(BUILTINS) | {'int', 'float'}
    for n in ast.walk(tree):
        if isinstance(n, (ast.Global, ast.Nonlocal)) and watched & set(n.names):
            fail('%s: global / nonlocal declaration of a name with a fixed meaning' % modname, n)
        if isinstance(n, ast.Name) and n.id in watched and isinstance(n.ctx, (ast.Store, ast.Del)):
            fail('%s: second binding of the name %s' % (modname, n.id), n)
        if isinstance(n, ast.Attribute) and isinstance(n.ctx, (ast.Store, ast.Del)) and isinstance(n.value, ast.Name) \
                and n.value.id in watched:
            fail('%s: attribute of %s is rebound' % (modname, n.value.id), n)
        if isinstance(n, ast.arg) and n.arg in watched:
            fail('%s: a parameter shadows %s' % (modname, n.arg), n)


def check_util(tree, funcs):
    for f in funcs:
        top_func(tree, f)
    for n in ast.walk(tree):
        if isinstance(n, ast.Name) and n.id in funcs and isinstance(n.ctx, (ast.Store, ast.Del)):
            fail('util: second binding of the name %s' % n.id, n)
        if isinstance(n, (ast.Global, ast.Nonlocal)) and set(funcs) & set(n.names):
            fail('util: global declaration of a callee', n)


# ----------------------------------------------------------------------------- one function
class Fn:
    def __init__(self, modname, node, mode, callees):
        self.mod = modname
        self.node = node
        self.name = node.name
        self.callees = callees            # bare names of this module's functions that may be called -> qualified name
        a = node.args
        if node.decorator_list or a.posonlyargs or a.kwonlyargs or a.vararg or node.returns is not None:
            fail('%s: unexpected signature or decorator' % self.name, node)
        self.params = [x.arg for x in a.args]
        self.kwarg = a.kwarg.arg if a.kwarg is not None else None
        if any(x.annotation is not None for x in a.args) or (a.kwarg is not None and a.kwarg.annotation is not None):
            fail('%s: annotated parameter' % self.name, node)
        nd = len(a.defaults)
        self.defaults = [None] * (len(self.params) - nd) + list(a.defaults)
        self.body = list(node.body)
        if self.body and isinstance(self.body[0], ast.Expr) and isinstance(self.body[0].value, ast.Constant) \
                and isinstance(self.body[0].value.value, str):
            self.body = self.body[1:]
        self.tail_reads = None
        if mode != 'full':
            kind, callee = mode
            if kind != 'prefix':
                fail('internal: unknown mode')

            def calls(s):
                return any(isinstance(m, ast.Call) and isinstance(m.func, ast.Name) and m.func.id == callee for m in ast.walk(s))
            idx = [i for i, s in enumerate(self.body) if calls(s)]
            if not idx:
                fail('%s: no call of %s at top level' % (self.name, callee), node)
            self.suffix = self.body[idx[0]:]
            self.body = self.body[:idx[0]]
            for s in self.body:
                for m in ast.walk(s):
                    if isinstance(m, ast.Return):
                        fail('%s: return before the first call of %s' % (self.name, callee), m)
        else:
            self.suffix = []
        scope = self.body
        for s in scope:
            for sub in ast.walk(s):
                if isinstance(sub, (
                        ast.Lambda, ast.FunctionDef, ast.AsyncFunctionDef, ast.ClassDef, ast.Global, ast.Nonlocal, ast.NamedExpr,
                        ast.Await, ast.Yield, ast.YieldFrom, ast.While, ast.Try, ast.With, ast.Break, ast.Continue, ast.Delete,
                        ast.Import, ast.ImportFrom, ast.Starred, ast.SetComp, ast.DictComp, ast.GeneratorExp,
                        ast.AnnAssign, ast.JoinedStr, ast.Set, ast.Dict, ast.IfExp, ast.Raise, ast.Assert)):
                    fail('%s: unsupported construct %s' % (self.name, type(sub).__name__), sub)
        # comprehension targets are not locals of the function (own scope)
        comp_stores = set()
        for s in scope:
            for sub in ast.walk(s):
                if isinstance(sub, ast.ListComp):
                    for g in sub.generators:
                        for m in ast.walk(g.target):
                            if isinstance(m, ast.Name):
                                comp_stores.add(id(m))
        self.locals = []                 # in the order of their first store in the text
        stores = [sub for s in self.body + self.suffix for sub in ast.walk(s)
                  if isinstance(sub, ast.Name) and isinstance(sub.ctx, ast.Store) and id(sub) not in comp_stores]
        allparams = self.params + ([self.kwarg] if self.kwarg else [])
        prefix_ids = {id(sub) for s in self.body for sub in ast.walk(s)}
        suffix_locals = []
        for sub in sorted(stores, key=lambda m: (m.lineno, m.col_offset)):
            if sub.id in allparams:
                continue
            if id(sub) in prefix_ids:
                if sub.id not in self.locals:
                    self.locals.append(sub.id)
            elif sub.id not in suffix_locals:
                suffix_locals.append(sub.id)
        if mode != 'full':
            # the variables of the prefix that the rest of the body reads, in binding order (parameters first)
            reads = {m.id for s in self.suffix for m in ast.walk(s) if isinstance(m, ast.Name) and isinstance(m.ctx, ast.Load)}
            bound = [x for x in allparams if any(isinstance(m, ast.Name) and m.id == x and isinstance(m.ctx, ast.Store)
                                                 for s in self.body for m in ast.walk(s))]
            order = [x for x in self.locals]
            self.tail_reads = [x for x in allparams + order if x in reads and (x in order or x in allparams)]
            # a local of the rest that is read there before being bound there would be an UnboundLocalError: not our concern
            del bound
        for x in allparams + self.locals:
            if not (x.isidentifier() and x.isascii()) or x in FIXED or x in self.callees:
                fail('%s: the local name %r shadows a name this translator gives a fixed meaning' % (self.name, x), node)
        if len(set(allparams)) != len(allparams):
            fail('%s: duplicate parameter' % self.name, node)
        self.comp_scope = []              # names bound by the comprehensions that enclose the expression being translated
        self.analyse()

    # ---- aliasing analysis ----
    def fresh_expr(self, e):
        """e creates a new object"""
        if isinstance(e, ast.BinOp):
            return True
        if isinstance(e, ast.Call) and isinstance(e.func, ast.Attribute) and isinstance(e.func.value, ast.Name) \
                and e.func.value.id == 'np' and e.func.attr in NP_FRESH:
            return True
        if isinstance(e, ast.Call) and isinstance(e.func, ast.Attribute) and e.func.attr == 'astype':
            return True
        if isinstance(e, ast.Call) and isinstance(e.func, ast.Call) and self.is_interp1d(e.func.func):
            return True                    # the array an interpolant returns
        return False

    @staticmethod
    def is_interp1d(g):
        return isinstance(g, ast.Attribute) and g.attr == 'interp1d' and isinstance(g.value, ast.Attribute) \
            and g.value.attr == 'interpolate' and isinstance(g.value.value, ast.Name) and g.value.value.id == 'scipy'

    def analyse(self):
        parent = {}
        for s in self.body:
            for p in ast.walk(s):
                for c in ast.iter_child_nodes(p):
                    parent[id(c)] = p
        blocks = []                       # every statement list of the translated part

        def collect(stmts):
            blocks.append(stmts)
            for s in stmts:
                if isinstance(s, ast.If):
                    collect(s.body)
                    collect(s.orelse)
                elif isinstance(s, ast.For):
                    collect(s.body)
        collect(self.body)
        self.written = {}                 # name -> list of writing statements
        for s in self.body:
            for sub in ast.walk(s):
                if isinstance(sub, ast.Assign):
                    for t in sub.targets:
                        if isinstance(t, ast.Subscript):
                            if not isinstance(t.value, ast.Name):
                                fail('%s: store into something that is not a name' % self.name, sub)
                            self.written.setdefault(t.value.id, []).append(sub)
                elif isinstance(sub, ast.AugAssign):
                    if not isinstance(sub.target, ast.Name):
                        fail('%s: unsupported augmented assignment' % self.name, sub)
                    self.written.setdefault(sub.target.id, []).append(sub)
        allparams = self.params + ([self.kwarg] if self.kwarg else [])
        for x, writes in self.written.items():
            if x not in self.locals and x not in allparams:
                fail('%s: in-place write into %r, which is not a parameter or a local' % (self.name, x), writes[0])
            binds = []
            for s in self.body:
                for sub in ast.walk(s):
                    if isinstance(sub, ast.Assign):
                        for t in sub.targets:
                            if isinstance(t, ast.Name) and t.id == x:
                                if not self.fresh_expr(sub.value):
                                    fail('%s: %r is written in place but bound to something that may be shared' % (self.name, x), sub)
                                binds.append(sub)
                            elif not isinstance(t, ast.Subscript) and any(isinstance(m, ast.Name) and m.id == x for m in ast.walk(t)):
                                fail('%s: %r is written in place but bound by a tuple assignment' % (self.name, x), sub)
                    if isinstance(sub, (ast.For, ast.comprehension)) and any(isinstance(m, ast.Name) and m.id == x for m in ast.walk(sub.target)):
                        fail('%s: %r is written in place but bound by a loop' % (self.name, x), sub)
            if x in allparams:
                # the write must follow a fresh binding of x in the same block
                for w in writes:
                    blk = [b for b in blocks if any(st is w for st in b)]
                    if len(blk) != 1:
                        fail('%s: internal: block of a write not found' % self.name, w)
                    k = [i for i, st in enumerate(blk[0]) if st is w][0]
                    if not any(st in binds for st in blk[0][:k]):
                        fail('%s: in-place write into the parameter %r without a fresh copy before it in the same block'
                             % (self.name, x), w)
            for s in self.body:
                for sub in ast.walk(s):
                    if not (isinstance(sub, ast.Name) and sub.id == x and isinstance(sub.ctx, ast.Load)):
                        continue
                    p = parent[id(sub)]
                    ok = False
                    if isinstance(p, ast.Subscript) and p.value is sub and not isinstance(p.slice, ast.Slice):
                        ok = True                          # x[i], x[mask]: a scalar or a copy
                    elif isinstance(p, (ast.BinOp, ast.Compare, ast.UnaryOp)):
                        ok = True
                    elif isinstance(p, ast.Attribute) and p.value is sub and (p.attr in ATTRS or p.attr in ('astype', 'max', 'mean')):
                        ok = True
                    elif isinstance(p, ast.Call) and sub in p.args and isinstance(p.func, ast.Attribute) \
                            and isinstance(p.func.value, ast.Name) and p.func.value.id == 'np' and p.func.attr in NP_FRESH:
                        ok = True
                    elif isinstance(p, ast.Call) and sub in p.args and self.is_interp1d(p.func):
                        ok = True                          # interp1d copies its data (copy=True is checked by the evaluator)
                    elif isinstance(p, ast.Return) or (isinstance(p, ast.Tuple) and isinstance(parent.get(id(p)), ast.Return)):
                        ok = True                          # handed to the caller when the function ends
                    if not ok:
                        fail('%s: %r is written in place and may become shared here' % (self.name, x), p)

    # ---- expressions ----
    def is_var(self, name):
        return name in self.params or name in self.locals or name == self.kwarg or name in self.comp_scope

    def target(self, t):
        if isinstance(t, ast.Name):
            return '(PVar %s)' % cstr(t.id)
        if isinstance(t, (ast.Tuple, ast.List)):
            return '(PTup %s)' % clist([self.target(x) for x in t.elts])
        fail('unsupported target', t)

    def target_names(self, t):
        return [m.id for m in ast.walk(t) if isinstance(m, ast.Name)]

    def ex(self, n):
        if isinstance(n, ast.Constant):
            c = n.value
            if c is None:
                return 'ENone'
            if isinstance(c, bool):
                return '(EBool %s)' % ('true' if c else 'false')
            if isinstance(c, int):
                return '(EInt %s)' % cz(c)
            if isinstance(c, float):
                return '(EFloat %s)' % cq(c)
            if isinstance(c, str):
                return '(EStr %s)' % cstr(c)
            fail('unsupported literal', n)
        if isinstance(n, ast.Name):
            if not isinstance(n.ctx, ast.Load):
                fail('unexpected store', n)
            if self.is_var(n.id):
                return '(ELoc %s)' % cstr(n.id)
            fail('name %r is not a parameter or a local' % n.id, n)
        if isinstance(n, ast.Tuple):
            return '(ETuple %s)' % clist([self.ex(x) for x in n.elts])
        if isinstance(n, ast.List):
            return '(EList %s)' % clist([self.ex(x) for x in n.elts])
        if isinstance(n, ast.UnaryOp):
            if isinstance(n.op, ast.Not):
                return '(ENot %s)' % self.ex(n.operand)
            if isinstance(n.op, ast.USub):
                return '(ENeg %s)' % self.ex(n.operand)
            fail('unsupported unary operator', n)
        if isinstance(n, ast.BoolOp):
            comb = 'EAnd' if isinstance(n.op, ast.And) else 'EOr'
            parts = [self.ex(x) for x in n.values]
            out = parts[-1]
            for p in reversed(parts[:-1]):
                out = '(%s %s %s)' % (comb, p, out)
            return out
        if isinstance(n, ast.Compare):
            if len(n.ops) != 1:
                fail('chained comparison', n)
            op, a, b = n.ops[0], n.left, n.comparators[0]
            if isinstance(op, (ast.Is, ast.IsNot)):
                if not (isinstance(b, ast.Constant) and b.value is None):
                    fail('`is` is accepted against None only', n)
                return '(%s %s)' % ('EIsNone' if isinstance(op, ast.Is) else 'EIsNotNone', self.ex(a))
            if type(op) in CMP:
                return '(ECmp %s %s %s)' % (CMP[type(op)], self.ex(a), self.ex(b))
            fail('unsupported comparison', n)
        if isinstance(n, ast.BinOp):
            if type(n.op) not in BIN:
                fail('unsupported binary operator', n)
            return '(EBin %s %s %s)' % (BIN[type(n.op)], self.ex(n.left), self.ex(n.right))
        if isinstance(n, ast.Subscript):
            if not isinstance(n.ctx, ast.Load):
                fail('unexpected store', n)
            if isinstance(n.slice, ast.Slice):
                s = n.slice
                if s.step is not None:
                    fail('slice with a step', n)
                return '(ESlice %s %s %s)' % (self.ex(n.value), copt(None if s.lower is None else self.ex(s.lower)),
                                              copt(None if s.upper is None else self.ex(s.upper)))
            if isinstance(n.slice, ast.Tuple):
                fail('multi-dimensional index', n)
            return '(EIndex %s %s)' % (self.ex(n.value), self.ex(n.slice))
        if isinstance(n, ast.Attribute):
            if not isinstance(n.ctx, ast.Load):
                fail('unexpected store', n)
            if isinstance(n.value, ast.Name) and n.value.id == 'util' and not self.is_var('util'):
                q = 'util.' + n.attr
                if q not in self.callees.values():
                    fail('util.%s used as a value is not a known function' % n.attr, n)
                return '(EFun %s)' % cstr(q)
            if isinstance(n.value, ast.Name) and n.value.id in ('np', 'scipy', 'warnings'):
                fail('unsupported library attribute', n)
            if n.attr in ATTRS:
                return '(EAttr %s %s)' % (self.ex(n.value), cstr(n.attr))
            fail('unsupported attribute', n)
        if isinstance(n, ast.ListComp):
            if len(n.generators) != 1:
                fail('nested comprehension', n)
            g = n.generators[0]
            if g.ifs or g.is_async:
                fail('comprehension with a condition', n)
            it = self.ex(g.iter)
            names = self.target_names(g.target)
            for x in names:
                if x in FIXED or x in self.callees:
                    fail('comprehension target shadows a name with a fixed meaning', n)
            pat = self.target(g.target)
            self.comp_scope = self.comp_scope + names
            body = self.ex(n.elt)
            self.comp_scope = self.comp_scope[:len(self.comp_scope) - len(names)]
            return '(EComp %s %s %s)' % (body, pat, it)
        if isinstance(n, ast.Call):
            return self.call(n)
        fail('expression outside the accepted fragment', n)

    def args_as_written(self, n, allow_star=False):
        pos = [self.ex(x) for x in n.args]
        kws = []
        star = None
        for k in n.keywords:
            if k.arg is None:
                if not allow_star or star is not None:
                    fail('**kwargs in a call that does not accept it', n)
                if k is not n.keywords[-1]:
                    fail('**kwargs before an explicit keyword', n)
                star = self.ex(k.value)
            else:
                kws.append('(%s, %s)' % (cstr(k.arg), self.ex(k.value)))
        return clist(pos), clist(kws), star

    def callee_name(self, f):
        """qualified name of a known mir_eval function named by the expression f, or None"""
        if isinstance(f, ast.Name) and not self.is_var(f.id) and f.id in self.callees:
            return self.callees[f.id]
        if isinstance(f, ast.Attribute) and isinstance(f.value, ast.Name) and f.value.id == 'util' and not self.is_var('util'):
            q = 'util.' + f.attr
            if q in self.callees.values():
                return q
        return None

    def call(self, n):
        f = n.func
        # scipy.interpolate.interp1d(...)(x_new)
        if isinstance(f, ast.Call):
            g = f.func
            if self.is_interp1d(g) and not self.is_var('scipy'):
                if n.keywords or len(n.args) != 1:
                    fail('the interpolant is applied to one argument', n)
                pos, kws, _ = self.args_as_written(f)
                return '(EInterp1d %s %s %s)' % (pos, kws, self.ex(n.args[0]))
            fail('call of a call', n)
        if isinstance(f, ast.Name):
            if self.is_var(f.id):
                fail('call of a local', n)
            if f.id in BUILTINS:
                if n.keywords or len(n.args) != BUILTINS[f.id]:
                    fail('%s with unexpected arguments' % f.id, n)
                return '(ENp %s %s [])' % (cstr(f.id), clist([self.ex(x) for x in n.args]))
            q = self.callee_name(f)
            if q is not None:
                pos, kws, star = self.args_as_written(n, allow_star=True)
                return '(ECall %s %s %s %s)' % (cstr(q), pos, kws, copt(star))
            fail('call of an unknown function %r' % f.id, n)
        if isinstance(f, ast.Attribute):
            if isinstance(f.value, ast.Name) and f.value.id == 'np':
                if f.attr == 'array' and len(n.keywords) == 1 and n.keywords[0].arg == 'dtype':
                    d = n.keywords[0].value
                    if not (isinstance(d, ast.Name) and d.id == 'float' and not self.is_var('float')) or len(n.args) != 1:
                        fail('np.array with dtype is accepted as np.array(e, dtype=float) only', n)
                    return '(ENp "np.array_float" %s [])' % clist([self.ex(n.args[0])])
                if f.attr in NP:
                    pos, kws, _ = self.args_as_written(n)
                    return '(ENp %s %s %s)' % (cstr('np.' + f.attr), pos, kws)
                fail('unsupported NumPy function np.%s' % f.attr, n)
            if isinstance(f.value, ast.Name) and f.value.id == 'util' and not self.is_var('util'):
                if f.attr == 'filter_kwargs':
                    if not n.args:
                        fail('filter_kwargs without a function', n)
                    q = self.callee_name(n.args[0])
                    if q is None:
                        fail('filter_kwargs of something that is not a known function', n)
                    rest = ast.Call(func=f, args=n.args[1:], keywords=n.keywords)
                    ast.copy_location(rest, n)
                    pos, kws, star = self.args_as_written(rest, allow_star=True)
                    return '(EFilterKw %s %s %s %s)' % (cstr(q), pos, kws, copt(star))
                q = self.callee_name(f)
                if q is not None:
                    pos, kws, star = self.args_as_written(n, allow_star=True)
                    return '(ECall %s %s %s %s)' % (cstr(q), pos, kws, copt(star))
                fail('unsupported util function', n)
            if isinstance(f.value, ast.Name) and f.value.id in ('warnings', 'scipy'):
                fail('unsupported library call', n)
            if f.attr == 'astype':
                if n.keywords or len(n.args) != 1 or not (isinstance(n.args[0], ast.Name) and n.args[0].id in ('int', 'float')
                                                          and not self.is_var(n.args[0].id)):
                    fail('astype is accepted as .astype(int) / .astype(float) only', n)
                return '(EMeth %s %s [])' % (self.ex(f.value), cstr('astype_' + n.args[0].id))
            if f.attr in ('max', 'mean'):
                if n.keywords or n.args:
                    fail('method %s with arguments' % f.attr, n)
                return '(EMeth %s %s [])' % (self.ex(f.value), cstr(f.attr))
            fail('unsupported method %s' % f.attr, n)
        fail('unsupported call', n)

    # ---- statements ----
    def block(self, stmts, ind):
        out = []
        for i, s in enumerate(stmts):
            out.extend(self.stmt(s, ind))
            if isinstance(s, ast.Return) and i + 1 < len(stmts):
                fail('statement after return', stmts[i + 1])
        return out

    def fmt_block(self, items, ind):
        pad = '\n' + '  ' * (ind + 1)
        if not items:
            return '[]'
        return '[' + pad + (';' + pad).join(items) + ']'

    def stmt(self, s, ind):
        if isinstance(s, ast.Pass):
            return ['SPass']
        if isinstance(s, ast.Expr):
            v = s.value
            if isinstance(v, ast.Call) and isinstance(v.func, ast.Attribute) and isinstance(v.func.value, ast.Name) \
                    and v.func.value.id == 'warnings' and v.func.attr == 'warn':
                if v.keywords or len(v.args) != 1 or not (isinstance(v.args[0], ast.Constant) and isinstance(v.args[0].value, str)):
                    fail('warnings.warn is accepted with one string literal only', s)
                return ['SWarn']
            if isinstance(v, ast.Call) and self.callee_name(v.func) is not None:
                return ['SExpr %s' % self.ex(v)]
            fail('expression statement that is not a call of a known function', s)
        if isinstance(s, ast.Assign):
            if len(s.targets) != 1:
                fail('chained assignment', s)
            t = s.targets[0]
            if isinstance(t, (ast.Name, ast.Tuple, ast.List)):
                return ['SAssign %s %s' % (self.target(t), self.ex(s.value))]
            if isinstance(t, ast.Subscript) and isinstance(t.value, ast.Name):
                if isinstance(t.slice, (ast.Slice, ast.Tuple)):
                    fail('slice / multi-dimensional assignment', s)
                if t.value.id not in self.written:
                    fail('internal: unanalysed write', s)
                return ['SSetItem %s %s %s' % (cstr(t.value.id), self.ex(t.slice), self.ex(s.value))]
            fail('unsupported assignment target', s)
        if isinstance(s, ast.AugAssign):
            if not isinstance(s.target, ast.Name) or not isinstance(s.op, ast.Mult) or s.target.id not in self.written:
                fail('unsupported augmented assignment', s)
            return ['SAugMul %s %s' % (cstr(s.target.id), self.ex(s.value))]
        if isinstance(s, ast.If):
            a = self.block(s.body, ind + 1)
            b = self.block(s.orelse, ind + 1)
            return ['SIf %s %s %s' % (self.ex(s.test), self.fmt_block(a, ind + 1), self.fmt_block(b, ind + 1))]
        if isinstance(s, ast.For):
            if s.orelse:
                fail('for ... else', s)
            body = self.block(s.body, ind + 1)
            return ['SFor %s %s %s' % (self.target(s.target), self.ex(s.iter), self.fmt_block(body, ind + 1))]
        if isinstance(s, ast.Return):
            return ['SReturn %s' % ('ENone' if s.value is None else self.ex(s.value))]
        fail('statement outside the accepted fragment', s)

    def coq_params(self):
        ps = []
        for p, d in zip(self.params, self.defaults):
            if d is None:
                ps.append('(%s, None)' % cstr(p))
            else:
                if not (isinstance(d, ast.Constant) and (d.value is None or isinstance(d.value, (bool, int, float, str)))):
                    fail('%s: default of %s is not a literal' % (self.name, p), d)
                ps.append('(%s, Some %s)' % (cstr(p), self.ex(d)))
        return clist(ps)

    def coq(self):
        body = self.block(self.body, 1)
        if self.tail_reads is not None:
            body.append('SReturn (ETuple %s)' % clist(['(ELoc %s)' % cstr(x) for x in self.tail_reads]))
        return ('{| f_params := %s;\n     f_kwarg := %s;\n     f_locals := %s;\n     f_body := %s |}'
                % (self.coq_params(), copt(cstr(self.kwarg)) if self.kwarg else 'None',
                   clist([cstr(x) for x in self.locals]), self.fmt_block(body, 2)))


def prim_sig(node):
    a = node.args
    if node.decorator_list or a.posonlyargs or a.kwonlyargs or a.vararg or a.kwarg:
        fail('%s: unexpected signature or decorator' % node.name, node)
    nd = len(a.defaults)
    defaults = [None] * (len(a.args) - nd) + list(a.defaults)
    ps = []
    for x, d in zip(a.args, defaults):
        if d is None:
            ps.append('(%s, None)' % cstr(x.arg))
        else:
            if not isinstance(d, ast.Constant):
                fail('%s: default of %s is not a literal' % (node.name, x.arg), d)
            c = d.value
            if c is None:
                e = 'ENone'
            elif isinstance(c, bool):
                e = '(EBool %s)' % ('true' if c else 'false')
            elif isinstance(c, int):
                e = '(EInt %s)' % cz(c)
            elif isinstance(c, float):
                e = '(EFloat %s)' % cq(c)
            elif isinstance(c, str):
                e = '(EStr %s)' % cstr(c)
            else:
                fail('%s: default of %s is not a literal' % (node.name, x.arg), d)
            ps.append('(%s, Some %s)' % (cstr(x.arg), e))
    return clist(ps)


def gname(mod, f):
    return 'gen_%s_%s' % ({'multipitch': 'mp', 'melody': 'mel'}[mod], f.lstrip('_'))


def generate():
    trees = {m: module(m) for m in ('multipitch', 'melody', 'util')}
    mods = ['multipitch', 'melody']
    for m in mods:
        funcs = [f for (mm, f, _) in SPEC if mm == m] + [f for (mm, f) in PRIMS if mm == m]
        if m == 'multipitch':
            funcs.append('compute_accuracy')
        check_module(trees[m], m, funcs)
    check_util(trees['util'], [f for (mm, f) in PRIMS if mm == 'util'] + ['filter_kwargs'])
    out = {}
    for (m, f, mode) in SPEC:
        callees = {g: '%s.%s' % (m, g) for (mm, g, _) in SPEC if mm == m}
        callees.update({g: '%s.%s' % (m, g) for (mm, g) in PRIMS if mm == m})
        callees.update({'util.' + g: 'util.' + g for (mm, g) in PRIMS if mm == 'util'})
        out[(m, f)] = Fn(m, top_func(trees[m], f), mode, callees)
    t = HEADER
    t += '(* frame helpers of mir_eval/multipitch.py and mir_eval/melody.py as programs of Model/FrameExp.v *)\n'
    t += 'From Coq Require Import String.\nFrom Coq Require Import List ZArith QArith.\n'
    t += 'From ME Require Import Model.Prelude Model.FrameExp.\nImport ListNotations.\nLocal Open Scope string_scope.\n'
    for (m, f, mode) in SPEC:
        t += '(* %s.%s%s *)\nDefinition %s : fdef :=\n  %s.\n' % (
            m, f, '' if mode == 'full' else ' (the statements before the first call of %s)' % mode[1], gname(m, f), out[(m, f)].coq())
    t += '(* every function with its signature source; the callees that are not translated here *)\n'
    t += 'Definition frame_funs : list (string * fdef) :=\n  %s.\n' % clist(
        ['(%s, %s)' % (cstr('%s.%s' % (m, f)), gname(m, f)) for (m, f, _) in SPEC])
    t += 'Definition frame_prims : list (string * list (string * option exp)) :=\n  %s.\n' % clist(
        ['(%s, %s)' % (cstr('%s.%s' % (m, p)), prim_sig(top_func(trees[m], p))) for (m, p) in PRIMS])
    return {'FrameGen.v': t}
