"""The interval pre-processing helpers of mir_eval/util.py -> coq/Gen/IntervalGen.v
(function bodies as programs of the Python / NumPy sub-language of coq/Model/IvExp.v).

  adjust_intervals, adjust_events, merge_labeled_intervals, sort_labeled_intervals, interpolate_intervals,
  intervals_to_samples, index_labels

This file maps syntax only (Python ast; mir_eval is never imported; anything outside the fragment raises
TranslationError). What an operator / NumPy function does on each type of value is defined by the evaluator of
Model/IvExp.v; Proofs/IntervalTie*.v prove every generated program equal to the hand-written model function of
Model/Intervals.v for all inputs.

Accepted fragment
  def          positional-or-keyword parameters, defaults = literal (None / bool / int / float / str); no decorator,
               *args, **kwargs, annotations
  statements   x = e | a, b = e | x[lo:hi] = e | x[k] = e | x.append(e) | x.insert(i, e) | raise ValueError(<str literal>) |
               if / elif / else | for <name or tuple of names> in e: (no else / break / continue) | return [e] | pass
               (no statement after a return / raise in the same block)
  expressions  parameters and locals, None / bool / int / float / str literals, tuples, lists, {} ,
               one comparison (== != < <= > >=), `is None`, `is not None`, `in`, not / and / or, + - * / %,
               e[i], e[i, j], e[:, k] (k an int literal), e[lo:hi], e.size, e.T, e.min() e.max() e.tolist() e.lower(),
               len list str int zip enumerate, sorted(set(e)), [e for x in e],
               np.<f>(positional arguments) for f in NP, np.arange(n[, dtype=np.float32]),
               np.searchsorted(a, v, side="left"|"right"), np.concatenate(x[, axis=0]),
               calls of FUNCS (opaque callees, arguments as written: positional and keyword).
What this file decides itself
  * which names are locals (assigned anywhere in the body, comprehension variables excluded); that `np` is numpy, that
    every callee has exactly one top-level def and is not rebound, that the names given a fixed meaning (builtins
    included) are not shadowed;
  * the sharing side condition of in-place operations: a name that receives x.append / x.insert / x[..] = is never
    copied: it occurs otherwise only as `x is None`, base of a subscript, sole argument of list(x) / len(x), or in the
    returned value. (WHICH object the name holds -- a copy made here or the caller's -- is tracked by the evaluator:
    every list value carries an `own` flag and an in-place operation on a list that is not owned is unmodelled.)
"""
import ast
from fractions import Fraction
from .common import module, top_func, TranslationError, HEADER, codes

OUTPUTS = ['IntervalGen.v']

FUNCS = ['adjust_intervals', 'adjust_events', 'merge_labeled_intervals', 'sort_labeled_intervals',
         'interpolate_intervals', 'intervals_to_samples', 'index_labels']
# NumPy functions taken with positional arguments only: name -> allowed numbers of arguments.
NP = {'floor': {1}, 'array': {1}, 'asarray': {1}, 'argwhere': {1}, 'maximum': {2}, 'minimum': {2}, 'vstack': {1},
      'unique': {1}, 'any': {1}, 'argsort': {1}}
BUILTINS = {'len': {1}, 'list': {1}, 'str': {1}, 'int': {1}, 'zip': {2, 3}, 'enumerate': {1}}
METHODS = {'min', 'max', 'tolist', 'lower'}
ATTRS = {'size', 'T'}
CMP = {ast.Eq: 'Eq', ast.NotEq: 'Ne', ast.Lt: 'Lt', ast.LtE: 'Le', ast.Gt: 'Gt', ast.GtE: 'Ge'}
BIN = {ast.Add: 'Add', ast.Sub: 'Sub', ast.Mult: 'Mul', ast.Div: 'Div', ast.Mod: 'Mod'}
EXNS = {'ValueError': 'ValueError', 'IndexError': 'IndexError', 'TypeError': 'TypeError', 'KeyError': 'KeyError'}
WATCHED = {'np', 'sorted', 'set', 'True', 'False', 'None'} | set(BUILTINS) | set(FUNCS) | set(EXNS)


def fail(msg, node=None):
    where = ''
    if node is not None:
        where = ' at line %s: %s' % (getattr(node, 'lineno', '?'), ast.unparse(node)[:160])
    raise TranslationError('intervalfuncs: ' + msg + where)


def cstr(s):
    if not (isinstance(s, str) and s.replace('.', '_').isidentifier() and s.isascii()):
        fail('unusual name %r' % (s,))
    return '"%s"' % s


def cz(n):
    if isinstance(n, bool) or not isinstance(n, int) or abs(n) >= 2 ** 62:
        fail('unsupported integer literal %r' % (n,))
    return '(%d)%%Z' % n


def cq(x):
    """the exact binary value of a float literal"""
    if not isinstance(x, float) or x != x or x in (float('inf'), float('-inf')):
        fail('unsupported float literal %r' % (x,))
    f = Fraction(x)
    if f.numerator < 0:
        return '((%d)#%d)%%Q' % (f.numerator, f.denominator)
    return '(%d#%d)%%Q' % (f.numerator, f.denominator)


def cs(s):
    if not s.isascii():
        fail('non-ASCII string literal %r' % (s,))
    return '(%s)%%list' % codes(s).replace(';', '; ')


def clist(items):
    return '[' + '; '.join(items) + ']'


def copt(x):
    return 'None' if x is None else '(Some %s)' % x


# ----------------------------------------------------------------------------- module-level checks
def check_module(tree):
    tops = {}
    for n in tree.body:
        if isinstance(n, (ast.FunctionDef, ast.ClassDef, ast.AsyncFunctionDef)):
            tops.setdefault(n.name, []).append(n)
        elif isinstance(n, (ast.Import, ast.ImportFrom)):
            for a in n.names:
                tops.setdefault((a.asname or a.name).split('.')[0], []).append(n)
        elif isinstance(n, (ast.Assign, ast.AugAssign, ast.AnnAssign)):
            for t in (n.targets if isinstance(n, ast.Assign) else [n.target]):
                for m in ast.walk(t):
                    if isinstance(m, ast.Name):
                        tops.setdefault(m.id, []).append(n)
        elif isinstance(n, ast.Expr) and isinstance(n.value, ast.Constant):
            pass
        else:
            fail('module-level statement other than import / def / assignment (names may be rebound)', n)
    np_ok = [n for n in tops.get('np', []) if isinstance(n, ast.Import) and len(n.names) == 1
             and n.names[0].name == 'numpy' and n.names[0].asname == 'np']
    if len(tops.get('np', [])) != 1 or len(np_ok) != 1:
        fail('`np` is not bound exactly once by `import numpy as np`')
    for b in list(BUILTINS) + ['sorted', 'set'] + list(EXNS):
        if b in tops:
            fail('builtin %s is rebound at module level' % b)
    for f in FUNCS:
        if len(tops.get(f, [])) != 1 or not isinstance(tops[f][0], ast.FunctionDef):
            fail('%s is not bound exactly once, by a top-level def' % f)
    for n in ast.walk(tree):
        if isinstance(n, (ast.Global, ast.Nonlocal)) and WATCHED & set(n.names):
            fail('global / nonlocal declaration of a name with a fixed meaning', n)
        if isinstance(n, ast.Name) and n.id in (WATCHED - {'str', 'list', 'int', 'len'}) and isinstance(n.ctx, (ast.Store, ast.Del)):
            fail('second binding of the name %s' % n.id, n)
        if isinstance(n, ast.Attribute) and isinstance(n.ctx, (ast.Store, ast.Del)) and isinstance(n.value, ast.Name) \
                and n.value.id in WATCHED:
            fail('attribute of %s is rebound' % n.value.id, n)


# ----------------------------------------------------------------------------- one function
class Fn:
    def __init__(self, node):
        self.node = node
        self.name = node.name
        a = node.args
        if node.decorator_list or a.posonlyargs or a.kwonlyargs or a.vararg or a.kwarg or node.returns is not None:
            fail('%s: unexpected signature or decorator' % self.name, node)
        self.params = [x.arg for x in a.args]
        if any(x.annotation is not None for x in a.args):
            fail('%s: annotated parameter' % self.name, node)
        nd = len(a.defaults)
        self.defaults = [None] * (len(self.params) - nd) + list(a.defaults)
        for sub in ast.walk(node):
            if sub is not node and isinstance(sub, (
                    ast.Lambda, ast.FunctionDef, ast.AsyncFunctionDef, ast.ClassDef, ast.Global, ast.Nonlocal, ast.NamedExpr,
                    ast.Await, ast.Yield, ast.YieldFrom, ast.While, ast.Try, ast.With, ast.Break, ast.Continue, ast.Delete,
                    ast.Import, ast.ImportFrom, ast.Starred, ast.SetComp, ast.DictComp, ast.GeneratorExp,
                    ast.AnnAssign, ast.AugAssign, ast.JoinedStr, ast.Set, ast.IfExp, ast.Assert)):
                fail('%s: unsupported construct %s' % (self.name, type(sub).__name__), sub)
        self.compvars = []
        comp_targets = set()
        for sub in ast.walk(node):
            if isinstance(sub, ast.ListComp):
                if len(sub.generators) != 1:
                    fail('%s: comprehension with several generators' % self.name, sub)
                g = sub.generators[0]
                if g.ifs or g.is_async or not isinstance(g.target, ast.Name):
                    fail('%s: comprehension with a condition / tuple target' % self.name, sub)
                self.compvars.append(g.target.id)
                comp_targets.add(id(g.target))
        self.locals = []                 # in the order of their first store in the text
        stores = [sub for sub in ast.walk(node) if isinstance(sub, ast.Name) and isinstance(sub.ctx, ast.Store)
                  and id(sub) not in comp_targets]
        for sub in sorted(stores, key=lambda m: (m.lineno, m.col_offset)):
            if sub.id not in self.params and sub.id not in self.locals:
                self.locals.append(sub.id)
        for x in self.params + self.locals + self.compvars:
            if not (x.isidentifier() and x.isascii()) or x in WATCHED:
                fail('%s: the local name %r shadows a name this translator gives a fixed meaning' % (self.name, x), node)
        if len(set(self.params)) != len(self.params):
            fail('%s: duplicate parameter' % self.name, node)
        self.scope = []                  # comprehension variables in scope while translating an expression
        self.body = list(node.body)
        if self.body and isinstance(self.body[0], ast.Expr) and isinstance(self.body[0].value, ast.Constant) \
                and isinstance(self.body[0].value.value, str):
            self.body = self.body[1:]
        self.analyse()

    # ---- sharing analysis of the names that receive in-place operations ----
    def analyse(self):
        parent = {}
        for p in ast.walk(self.node):
            for c in ast.iter_child_nodes(p):
                parent[id(c)] = p
        self.written = set()
        for sub in ast.walk(self.node):
            if isinstance(sub, ast.Assign):
                for t in sub.targets:
                    for m in ([t] if not isinstance(t, ast.Tuple) else t.elts):
                        if isinstance(m, ast.Subscript):
                            if not isinstance(m.value, ast.Name):
                                fail('%s: store into something that is not a name' % self.name, sub)
                            self.written.add(m.value.id)
            elif isinstance(sub, ast.Call) and isinstance(sub.func, ast.Attribute) \
                    and sub.func.attr in ('append', 'insert', 'extend', 'pop', 'remove', 'sort', 'reverse', 'clear', 'update',
                                          'setdefault', 'fill', 'put', 'resize', 'itemset', 'partition'):
                if not isinstance(sub.func.value, ast.Name):
                    fail('%s: in-place method on something that is not a name' % self.name, sub)
                if sub.func.attr not in ('append', 'insert'):
                    fail('%s: unsupported in-place method %s' % (self.name, sub.func.attr), sub)
                self.written.add(sub.func.value.id)
        for x in self.written:
            if x not in self.params and x not in self.locals:
                fail('%s: in-place write into %r, which is not a parameter or local' % (self.name, x))
            if x in self.compvars:
                fail('%s: %r is written in place and is a comprehension variable' % (self.name, x))
            for sub in ast.walk(self.node):
                if isinstance(sub, ast.For) and any(isinstance(m, ast.Name) and m.id == x for m in ast.walk(sub.target)):
                    fail('%s: %r is written in place but bound by a loop' % (self.name, x), sub)
                if not (isinstance(sub, ast.Name) and sub.id == x and isinstance(sub.ctx, ast.Load)):
                    continue
                p = parent[id(sub)]
                ok = False
                if isinstance(p, ast.Subscript) and p.value is sub:
                    ok = True                                  # x[i], x[a:b] (a copy for a list), x[..] = ..
                elif isinstance(p, ast.Compare) and len(p.ops) == 1 and isinstance(p.ops[0], (ast.Is, ast.IsNot)) \
                        and isinstance(p.comparators[0], ast.Constant) and p.comparators[0].value is None and p.left is sub:
                    ok = True                                  # x is None
                elif isinstance(p, ast.Attribute) and p.value is sub and p.attr in ('append', 'insert') \
                        and isinstance(parent[id(p)], ast.Call) and parent[id(p)].func is p:
                    ok = True
                elif isinstance(p, ast.Call) and isinstance(p.func, ast.Name) and p.func.id in ('list', 'len') \
                        and p.args == [sub] and not p.keywords:
                    ok = True
                elif isinstance(p, ast.Return) or (isinstance(p, ast.Tuple) and isinstance(parent[id(p)], ast.Return)):
                    ok = True
                if not ok:
                    fail('%s: %r receives in-place operations and may become shared here' % (self.name, x), p)

    # ---- expressions ----
    def ex(self, n):
        if isinstance(n, ast.Constant):
            c = n.value
            if c is None:
                return 'ENone'
            if isinstance(c, bool):
                return '(EBool %s)' % ('true' if c else 'false')
            if isinstance(c, int):
                return '(EInt %s)' % cz(c)
            if isinstance(c, float):
                return '(EFloat %s)' % cq(c)
            if isinstance(c, str):
                return '(EStr %s)' % cs(c)
            fail('unsupported literal', n)
        if isinstance(n, ast.Name):
            if not isinstance(n.ctx, ast.Load):
                fail('unexpected store', n)
            if n.id in self.params or n.id in self.locals or n.id in self.scope:
                return '(ELoc %s)' % cstr(n.id)
            fail('name %r is not a parameter or a local' % n.id, n)
        if isinstance(n, ast.Tuple):
            return '(ETuple %s)' % clist([self.ex(x) for x in n.elts])
        if isinstance(n, ast.List):
            return '(EList %s)' % clist([self.ex(x) for x in n.elts])
        if isinstance(n, ast.Dict):
            if n.keys:
                fail('non-empty dict display', n)
            return 'EDict'
        if isinstance(n, ast.UnaryOp):
            if isinstance(n.op, ast.Not):
                return '(ENot %s)' % self.ex(n.operand)
            if isinstance(n.op, ast.USub) and isinstance(n.operand, ast.Constant) and isinstance(n.operand.value, int) \
                    and not isinstance(n.operand.value, bool):
                return '(EInt %s)' % cz(-n.operand.value)
            fail('unsupported unary operator', n)
        if isinstance(n, ast.BoolOp):
            comb = 'EAnd' if isinstance(n.op, ast.And) else 'EOr'
            parts = [self.ex(x) for x in n.values]
            out = parts[-1]
            for p in reversed(parts[:-1]):
                out = '(%s %s %s)' % (comb, p, out)
            return out
        if isinstance(n, ast.Compare):
            if len(n.ops) != 1:
                fail('chained comparison', n)
            op, a, b = n.ops[0], n.left, n.comparators[0]
            if type(op) in CMP:
                return '(ECmp %s %s %s)' % (CMP[type(op)], self.ex(a), self.ex(b))
            if isinstance(op, (ast.Is, ast.IsNot)):
                if not (isinstance(b, ast.Constant) and b.value is None):
                    fail('`is` is accepted against None only', n)
                t = '(EIsNone %s)' % self.ex(a)
                return t if isinstance(op, ast.Is) else '(ENot %s)' % t
            if isinstance(op, ast.In):
                return '(EIn %s %s)' % (self.ex(a), self.ex(b))
            fail('unsupported comparison', n)
        if isinstance(n, ast.BinOp):
            if type(n.op) not in BIN:
                fail('unsupported binary operator', n)
            return '(EBin %s %s %s)' % (BIN[type(n.op)], self.ex(n.left), self.ex(n.right))
        if isinstance(n, ast.Subscript):
            if not isinstance(n.ctx, ast.Load):
                fail('unexpected store', n)
            return self.subscript(n)
        if isinstance(n, ast.Attribute):
            if not isinstance(n.ctx, ast.Load):
                fail('unexpected store', n)
            if isinstance(n.value, ast.Name) and n.value.id == 'np':
                fail('unsupported NumPy constant', n)
            if n.attr in ATTRS:
                return '(EAttr %s %s)' % (self.ex(n.value), cstr(n.attr))
            fail('unsupported attribute', n)
        if isinstance(n, ast.Call):
            return self.call(n)
        if isinstance(n, ast.ListComp):
            g = n.generators[0]
            it = self.ex(g.iter)
            self.scope.append(g.target.id)
            body = self.ex(n.elt)
            self.scope.pop()
            return '(EComp %s %s %s)' % (body, cstr(g.target.id), it)
        fail('expression outside the accepted fragment', n)

    def int_lit(self, n):
        if isinstance(n, ast.Constant) and isinstance(n.value, int) and not isinstance(n.value, bool):
            return n.value
        if isinstance(n, ast.UnaryOp) and isinstance(n.op, ast.USub) and isinstance(n.operand, ast.Constant) \
                and isinstance(n.operand.value, int) and not isinstance(n.operand.value, bool):
            return -n.operand.value
        return None

    def subscript(self, n):
        s = n.slice
        if isinstance(s, ast.Slice):
            if s.step is not None:
                fail('slice with a step', n)
            return '(ESlice %s %s %s)' % (self.ex(n.value), copt(None if s.lower is None else self.ex(s.lower)),
                                          copt(None if s.upper is None else self.ex(s.upper)))
        if isinstance(s, ast.Tuple):
            if len(s.elts) != 2:
                fail('index with more than two components', n)
            i, j = s.elts
            if isinstance(i, ast.Slice):
                if i.lower is not None or i.upper is not None or i.step is not None or self.int_lit(j) is None:
                    fail('two-dimensional slicing is accepted as e[:, <int literal>] only', n)
                return '(ECol %s %s)' % (self.ex(n.value), cz(self.int_lit(j)))
            if isinstance(j, ast.Slice):
                fail('two-dimensional slicing is accepted as e[:, <int literal>] only', n)
            return '(EIndex2 %s %s %s)' % (self.ex(n.value), self.ex(i), self.ex(j))
        return '(EIndex %s %s)' % (self.ex(n.value), self.ex(s))

    def call(self, n):
        f = n.func
        if isinstance(f, ast.Name):
            if f.id in self.params or f.id in self.locals or f.id in self.scope:
                fail('call of a local', n)
            if f.id in BUILTINS:
                if n.keywords or len(n.args) not in BUILTINS[f.id]:
                    fail('%s with unexpected arguments' % f.id, n)
                return '(ENp %s %s)' % (cstr(f.id), clist([self.ex(x) for x in n.args]))
            if f.id == 'sorted':
                a = n.args[0] if len(n.args) == 1 and not n.keywords else None
                if not (isinstance(a, ast.Call) and isinstance(a.func, ast.Name) and a.func.id == 'set'
                        and len(a.args) == 1 and not a.keywords):
                    fail('sorted is accepted as sorted(set(e)) only', n)
                return '(ENp "sorted_set" %s)' % clist([self.ex(a.args[0])])
            if f.id in FUNCS:
                kws = []
                for k in n.keywords:
                    if k.arg is None:
                        fail('**kwargs in a call', n)
                    kws.append('(%s, %s)' % (cstr(k.arg), self.ex(k.value)))
                return '(ECall %s %s %s)' % (cstr(f.id), clist([self.ex(x) for x in n.args]), clist(kws))
            fail('call of an unknown function %r' % f.id, n)
        if isinstance(f, ast.Attribute):
            if isinstance(f.value, ast.Name) and f.value.id == 'np':
                args = [self.ex(x) for x in n.args]
                kw = {k.arg: k.value for k in n.keywords}
                if None in kw or len(kw) != len(n.keywords):
                    fail('**kwargs / repeated keyword in a call', n)
                if f.attr == 'arange':
                    if len(n.args) == 1 and not kw:
                        return '(ENp "np.arange" %s)' % clist(args)
                    d = kw.get('dtype')
                    if len(n.args) == 1 and set(kw) == {'dtype'} and isinstance(d, ast.Attribute) and d.attr == 'float32' \
                            and isinstance(d.value, ast.Name) and d.value.id == 'np':
                        return '(ENp "np.arange_float32" %s)' % clist(args)
                    fail('np.arange is accepted as np.arange(n) or np.arange(n, dtype=np.float32) only', n)
                if f.attr == 'searchsorted':
                    sd = kw.get('side')
                    if len(n.args) == 2 and set(kw) == {'side'} and isinstance(sd, ast.Constant) and sd.value in ('left', 'right'):
                        return '(ENp %s %s)' % (cstr('np.searchsorted_' + sd.value), clist(args))
                    fail('np.searchsorted is accepted as np.searchsorted(a, v, side="left"|"right") only', n)
                if f.attr == 'concatenate':
                    if len(n.args) == 1 and not kw:
                        return '(ENp "np.concatenate" %s)' % clist(args)
                    ax = kw.get('axis')
                    if len(n.args) == 1 and set(kw) == {'axis'} and isinstance(ax, ast.Constant) and ax.value == 0 \
                            and not isinstance(ax.value, bool):
                        return '(ENp "np.concatenate_axis0" %s)' % clist(args)
                    fail('np.concatenate with unexpected arguments', n)
                if f.attr in NP:
                    if kw or len(n.args) not in NP[f.attr]:
                        fail('np.%s with unexpected arguments' % f.attr, n)
                    return '(ENp %s %s)' % (cstr('np.' + f.attr), clist(args))
                fail('unsupported NumPy function np.%s' % f.attr, n)
            if f.attr in METHODS:
                if n.keywords or n.args:
                    fail('method %s with arguments' % f.attr, n)
                return '(EMeth %s %s [])' % (self.ex(f.value), cstr(f.attr))
            fail('unsupported method %s' % f.attr, n)
        fail('unsupported call', n)

    # ---- statements ----
    def block(self, stmts, ind):
        out = []
        for i, s in enumerate(stmts):
            out.extend(self.stmt(s, ind))
            if isinstance(s, (ast.Return, ast.Raise)) and i + 1 < len(stmts):
                fail('statement after return / raise', stmts[i + 1])
        return out

    def fmt_block(self, items, ind):
        pad = '\n' + '  ' * (ind + 1)
        if not items:
            return '[]'
        return '[' + pad + (';' + pad).join(items) + ']'

    def target(self, t):
        if isinstance(t, ast.Name):
            return '(TName %s)' % cstr(t.id)
        if isinstance(t, ast.Tuple) and all(isinstance(x, ast.Name) for x in t.elts):
            names = [x.id for x in t.elts]
            if len(set(names)) != len(names):
                fail('repeated name in a tuple target', t)
            return '(TTuple %s)' % clist([cstr(x) for x in names])
        fail('unsupported assignment / loop target', t)

    def stmt(self, s, ind):
        if isinstance(s, ast.Pass):
            return ['SPass']
        if isinstance(s, ast.Raise):
            e = s.exc
            if s.cause is not None or not (isinstance(e, ast.Call) and isinstance(e.func, ast.Name) and e.func.id in EXNS
                                           and not e.keywords and len(e.args) <= 1
                                           and all(isinstance(a, ast.Constant) and isinstance(a.value, str) for a in e.args)):
                fail('raise is accepted as raise <builtin exception>(<str literal>) only', s)
            return ['SRaise %s' % EXNS[e.func.id]]
        if isinstance(s, ast.Expr):
            v = s.value
            if isinstance(v, ast.Call) and isinstance(v.func, ast.Attribute) and v.func.attr in ('append', 'insert'):
                x = v.func.value
                na = 1 if v.func.attr == 'append' else 2
                if not isinstance(x, ast.Name) or x.id not in self.written or v.keywords or len(v.args) != na:
                    fail('x.append(e) / x.insert(i, e) is accepted on a name only', s)
                if v.func.attr == 'append':
                    return ['SAppend %s %s' % (cstr(x.id), self.ex(v.args[0]))]
                return ['SInsert %s %s %s' % (cstr(x.id), self.ex(v.args[0]), self.ex(v.args[1]))]
            fail('expression statement outside the accepted fragment', s)
        if isinstance(s, ast.Assign):
            if len(s.targets) != 1:
                fail('chained assignment', s)
            t = s.targets[0]
            if isinstance(t, (ast.Name, ast.Tuple)):
                return ['SAssign %s %s' % (self.target(t), self.ex(s.value))]
            if isinstance(t, ast.Subscript) and isinstance(t.value, ast.Name):
                if t.value.id not in self.written:
                    fail('internal: unanalysed write', s)
                if isinstance(t.slice, ast.Slice):
                    if t.slice.step is not None or t.slice.lower is None or t.slice.upper is None:
                        fail('slice assignment is accepted as x[lo:hi] = e only', s)
                    return ['SSetSlice %s %s %s %s' % (cstr(t.value.id), self.ex(t.slice.lower), self.ex(t.slice.upper),
                                                       self.ex(s.value))]
                if isinstance(t.slice, ast.Tuple):
                    fail('multi-dimensional assignment', s)
                return ['SSetKey %s %s %s' % (cstr(t.value.id), self.ex(t.slice), self.ex(s.value))]
            fail('unsupported assignment target', s)
        if isinstance(s, ast.If):
            a = self.block(s.body, ind + 1)
            b = self.block(s.orelse, ind + 1)
            return ['SIf %s %s %s' % (self.ex(s.test), self.fmt_block(a, ind + 1), self.fmt_block(b, ind + 1))]
        if isinstance(s, ast.For):
            if s.orelse:
                fail('for ... else', s)
            body = self.block(s.body, ind + 1)
            return ['SFor %s %s %s' % (self.target(s.target), self.ex(s.iter), self.fmt_block(body, ind + 1))]
        if isinstance(s, ast.Return):
            return ['SReturn %s' % ('ENone' if s.value is None else self.ex(s.value))]
        fail('statement outside the accepted fragment', s)

    def coq_params(self):
        ps = []
        for p, d in zip(self.params, self.defaults):
            if d is None:
                ps.append('(%s, None)' % cstr(p))
            else:
                if not (isinstance(d, ast.Constant) and (d.value is None or isinstance(d.value, (bool, int, float, str)))):
                    fail('%s: default of %s is not a literal' % (self.name, p), d)
                ps.append('(%s, Some %s)' % (cstr(p), self.ex(d)))
        return clist(ps)

    def coq(self):
        body = self.block(self.body, 1)
        return ('{| f_params := %s;\n     f_locals := %s;\n     f_body := %s |}'
                % (self.coq_params(), clist([cstr(x) for x in self.locals]), self.fmt_block(body, 2)))


def generate():
    tree = module('util')
    check_module(tree)
    fns = {f: Fn(top_func(tree, f)) for f in FUNCS}
    t = HEADER
    t += '(* the interval pre-processing helpers of mir_eval/util.py as programs of Model/IvExp.v *)\n'
    t += 'From Coq Require Import String.\nFrom Coq Require Import List ZArith QArith.\n'
    t += 'From ME Require Import Model.Prelude Model.IvExp.\nImport ListNotations.\nLocal Open Scope nat_scope.\nLocal Open Scope string_scope.\n'
    for f in FUNCS:
        t += '(* util.%s *)\nDefinition gen_%s : fdef :=\n  %s.\n' % (f, f.lstrip('_'), fns[f].coq())
    t += '(* every function, with its signature source *)\n'
    t += 'Definition interval_funs : list (string * fdef) :=\n  %s.\n' % clist(['(%s, gen_%s)' % (cstr(f), f.lstrip('_')) for f in FUNCS])
    return {'IntervalGen.v': t}
