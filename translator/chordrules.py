"""The 12 chord comparison functions of chord.py -> coq/Gen/ChordRules.v.

Each body (thirds, thirds_inv, triads, triads_inv, tetrads, tetrads_inv, root, mirex, majmin, majmin_inv,
sevenths, sevenths_inv) is mapped, statement by statement, to a program of the row-wise language of
coq/Model/RowExp.v. This file only maps *syntax*: what an idiom means (dtypes, casts on assignment, bool
arithmetic, index errors, length mismatches) is decided by the evaluator `ev` of RowExp.v, and
Proofs/ChordRulesTie.v proves the result equal to the hand-written rules of Model/ChordCmp.v.

What this file does decide (and refuses, fail-closed, when it cannot):
  * shape kinds, so that the row-wise reading is sound (every operation acts within a row):
        S  array of shape (n,)       one scalar per row
        V  array of shape (n,k)      one vector per row; reductions must use axis=1 / axis=-1
        T  array of shape (k,n)      np.array([S, ..., S]); reductions must use axis=0 / axis=-2
        C  constant vector (k,)      np.array(QUALITIES[name][lo:hi])
        K  Python scalar literal
     binary operations broadcast only S.S S.K V.V V.C V.K T.T T.K C.C C.K K.K (anything else would mix rows);
  * aliasing: only a variable bound to a freshly allocated array that has no alias or view may be the
    target of  x[mask] = v  or of an out= argument;
  * the encode_many tuple plumbing, QUALITIES[...] lookups by literal names, and the unrolling of the
    list comprehensions over literal lists.
Not translated (tied by correspondence units): validate, encode_many, rotate_bitmaps_to_roots (the primitive
`rot`), whose call sites are checked to have exactly the expected arguments.
Python ast only; mir_eval is never imported.
"""
import ast
from .common import module, top_func, top_assign, codes, TranslationError, HEADER

OUTPUTS = ['ChordRules.v']

# (Python function, Coq name), in the order of Model.ChordCmp.rules
RULES = [('thirds', 'gen_thirds'), ('thirds_inv', 'gen_thirds_inv'), ('triads', 'gen_triads'),
         ('triads_inv', 'gen_triads_inv'), ('tetrads', 'gen_tetrads'), ('tetrads_inv', 'gen_tetrads_inv'),
         ('root', 'gen_root_cmp'), ('mirex', 'gen_mirex'), ('majmin', 'gen_majmin'),
         ('majmin_inv', 'gen_majmin_inv'), ('sevenths', 'gen_sevenths'), ('sevenths_inv', 'gen_sevenths_inv')]
PARAMS = {'reference_labels': 'Ref', 'estimated_labels': 'Est'}
GLOBALS = ['np', 'QUALITIES', 'validate', 'encode_many', 'rotate_bitmaps_to_roots']
EMIT = ('S', 'V', 'T', 'C', 'K')
BROADCAST = {('S', 'S'): 'S', ('S', 'K'): 'S', ('K', 'S'): 'S', ('V', 'V'): 'V', ('V', 'C'): 'V', ('C', 'V'): 'V',
             ('V', 'K'): 'V', ('K', 'V'): 'V', ('T', 'T'): 'T', ('T', 'K'): 'T', ('K', 'T'): 'T',
             ('C', 'C'): 'C', ('C', 'K'): 'C', ('K', 'C'): 'C', ('K', 'K'): 'K'}
CMPOPS = {ast.Eq: 'CEq', ast.NotEq: 'CNe', ast.Lt: 'CLt', ast.LtE: 'CLe', ast.Gt: 'CGt', ast.GtE: 'CGe'}
NPCMP = {'np.equal': 'CEq', 'np.not_equal': 'CNe', 'np.less': 'CLt', 'np.less_equal': 'CLe',
         'np.greater': 'CGt', 'np.greater_equal': 'CGe'}
DTYPES = {'np.float64': 'DFloat', 'float': 'DFloat', 'np.bool_': 'DBool', 'bool': 'DBool',
          'np.int64': 'DInt', 'int': 'DInt'}
REDUCE = {'all': 'RAll', 'any': 'RAny', 'sum': 'RSum'}


def fail(msg, node=None):
    where = ''
    if node is not None:
        try:
            where = ' at line %s: %s' % (getattr(node, 'lineno', '?'), ast.unparse(node)[:160])
        except Exception:
            pass
    raise TranslationError('chordrules: ' + msg + where)


def zlit(n):
    return '(%d)%%Z' % n


class Val:
    """The translation of an expression: kind + Coq text (for the kinds in EMIT) or translator-level data."""
    def __init__(self, kind, text=None, items=None, origin=None, fresh=False, masked=None):
        self.kind, self.text, self.items = kind, text, items
        self.origin = origin      # ('root'|'bitmap'|'bass', side) when the value IS that array of encode_many
        self.fresh = fresh        # a newly allocated array (not a name, view or tuple element)
        self.masked = masked      # name of the mask m when the value is X[m] / A[m, B[m]]


class Body:
    def __init__(self, fn):
        self.fn = fn
        self.env = {}
        self.mutable = {}
        self.stmts = []
        self.reduce = {}

    # ---------------- expressions ----------------
    def plain(self, v, node, kinds=None):
        if v.masked is not None:
            fail('a mask-indexed value may only be the right-hand side of an assignment under the same mask', node)
        if kinds is not None and v.kind not in kinds:
            fail('expected an expression of kind %s, got %s' % ('/'.join(kinds), v.kind), node)
        return v

    def number(self, n, node):
        if isinstance(n, bool):
            return Val('K', '(RBool %s)' % ('true' if n else 'false'))
        if isinstance(n, int) and abs(n) < 2 ** 31:
            return Val('K', '(RInt %s)' % zlit(n))
        if isinstance(n, float) and n == n and abs(n) < 2 ** 31 and n == int(n):
            return Val('K', '(RFloat %s)' % zlit(int(n)))
        fail('unsupported numeric literal', node)

    def const_int(self, node, allow_none=False):
        if node is None and allow_none:
            return None
        if isinstance(node, ast.Constant) and isinstance(node.value, int) and not isinstance(node.value, bool):
            return node.value
        if (isinstance(node, ast.UnaryOp) and isinstance(node.op, ast.USub) and isinstance(node.operand, ast.Constant)
                and isinstance(node.operand.value, int) and not isinstance(node.operand.value, bool)):
            return -node.operand.value
        fail('expected an integer literal', node)

    def ex(self, n):
        if isinstance(n, ast.Constant):
            if isinstance(n.value, str):
                return Val('str', items=n.value)
            return self.number(n.value, n)
        if isinstance(n, ast.UnaryOp) and isinstance(n.op, ast.USub) and isinstance(n.operand, ast.Constant) \
                and isinstance(n.operand.value, (int, float)) and not isinstance(n.operand.value, bool):
            return self.number(-n.operand.value, n)
        if isinstance(n, ast.Name):
            if not isinstance(n.ctx, ast.Load):
                fail('unexpected name context', n)
            if n.id in self.env:
                return self.env[n.id]
            if n.id == 'QUALITIES':
                return Val('qualities')
            fail('unknown name %r' % n.id, n)
        if isinstance(n, ast.List):
            items = [self.plain(self.ex(x), x) for x in n.elts]
            if items and all(v.kind == 'str' for v in items):
                return Val('strs', items=[v.items for v in items])
            return Val('list', items=items)
        if isinstance(n, ast.ListComp):
            return self.listcomp(n)
        if isinstance(n, ast.Subscript):
            return self.subscript(n)
        if isinstance(n, ast.Compare):
            if len(n.ops) != 1 or type(n.ops[0]) not in CMPOPS:
                fail('unsupported comparison', n)
            return self.binary('RCmp ' + CMPOPS[type(n.ops[0])], n.left, n.comparators[0], n)
        if isinstance(n, ast.BinOp):
            if isinstance(n.op, ast.Mult):
                return self.binary('RMul', n.left, n.right, n)
            if isinstance(n.op, ast.Add):
                return self.binary('RAdd', n.left, n.right, n)
            fail('unsupported binary operator', n)
        if isinstance(n, ast.Call):
            return self.call(n)
        fail('expression outside the accepted fragment', n)

    def binary(self, ctor, a, b, node, only=None):
        va = self.plain(self.ex(a), a, EMIT)
        vb = self.plain(self.ex(b), b, EMIT)
        k = BROADCAST.get((va.kind, vb.kind))
        if k is None or (only is not None and k not in only):
            fail('operands of kinds %s and %s cannot be combined row-wise' % (va.kind, vb.kind), node)
        return Val(k, '(%s %s %s)' % (ctor, va.text, vb.text), fresh=True)

    def listcomp(self, n):
        if len(n.generators) != 1:
            fail('only one generator is accepted', n)
        g = n.generators[0]
        if g.ifs or g.is_async or not isinstance(g.target, ast.Name):
            fail('unsupported comprehension', n)
        var = g.target.id
        if var in self.env or var in GLOBALS or var in PARAMS:
            fail('comprehension variable %r shadows another name' % var, n)
        it = self.plain(self.ex(g.iter), g.iter)
        if it.kind == 'strs':
            elems = [Val('str', items=s) for s in it.items]
        elif it.kind == 'M':
            elems = it.items                      # iterating a constant matrix yields its rows
        else:
            fail('a comprehension may only range over a literal list of names or a constant table', n)
        out = []
        for el in elems:
            self.env[var] = el
            try:
                out.append(self.plain(self.ex(n.elt), n.elt))
            finally:
                del self.env[var]
        return Val('list', items=out)

    def subscript(self, n):
        base = self.plain(self.ex(n.value), n.value)
        s = n.slice
        if base.kind == 'qualities':
            key = self.ex(s)
            if key.kind != 'str':
                fail('QUALITIES must be indexed by a literal name', n)
            return Val('L', '(RQual %s%%nat)' % codes(key.items))
        if base.kind == 'tuple':
            if isinstance(s, ast.Slice):
                if s.lower is not None or s.step is not None:
                    fail('only t[:k] is accepted on the result of encode_many', n)
                k = self.const_int(s.upper)
                if not 0 <= k <= len(base.items):
                    fail('tuple slice out of range', n)
                return Val('tuple', items=base.items[:k])
            i = self.const_int(s)
            if not 0 <= i < len(base.items):
                fail('tuple index out of range', n)
            return base.items[i]
        if base.kind in ('L', 'C'):
            lo, hi = self.slice_bounds(s, n)
            return Val(base.kind, '(RSlice %d%%nat %s %s)' % (lo, hi, base.text))
        if base.kind == 'V':
            if not (isinstance(s, ast.Tuple) and len(s.elts) == 2):
                fail('a per-row vector must be indexed as a[:, ...] or a[m, i[m]]', n)
            first, second = s.elts
            if isinstance(first, ast.Slice):
                if first.lower is not None or first.upper is not None or first.step is not None:
                    fail('the row axis may only be indexed by ":"', n)
                if isinstance(second, ast.Slice):
                    lo, hi = self.slice_bounds(second, n)
                    return Val('V', '(RSlice %d%%nat %s %s)' % (lo, hi, base.text))
                i = self.const_int(second)
                return Val('S', '(RIdx %s (RInt %s))' % (base.text, zlit(i)))
            # a[m, i[m]]
            if isinstance(first, ast.Name) and isinstance(second, ast.Subscript) \
                    and isinstance(second.slice, ast.Name) and second.slice.id == first.id:
                m = self.plain(self.ex(first), first, ('S',))
                idx = self.plain(self.ex(second.value), second.value, ('S',))
                del m
                return Val('S', '(RIdx %s %s)' % (base.text, idx.text), masked=first.id)
            fail('unsupported index of a per-row vector', n)
        if base.kind == 'S':
            if isinstance(s, ast.Name):
                self.plain(self.ex(s), s, ('S',))
                return Val('S', base.text, masked=s.id)
            fail('unsupported index of a per-row scalar', n)
        fail('unsupported subscript', n)

    def slice_bounds(self, s, node):
        if not isinstance(s, ast.Slice) or s.step is not None:
            fail('expected a slice lo:hi without step', node)
        lo = self.const_int(s.lower, True)
        hi = self.const_int(s.upper, True)
        lo = 0 if lo is None else lo
        if lo < 0 or (hi is not None and hi < 0):
            fail('negative slice bounds are not accepted', node)
        return lo, ('None' if hi is None else '(Some %d%%nat)' % hi)

    def axis_of(self, n, args):
        """axis given as the keyword axis= or as the single remaining positional argument"""
        kws = {k.arg: k.value for k in n.keywords}
        if None in kws or set(kws) - {'axis'}:
            fail('unsupported keyword arguments', n)
        if 'axis' in kws and not args:
            return self.const_int(kws['axis'])
        if 'axis' not in kws and len(args) == 1:
            return self.const_int(args[0])
        fail('the reduction needs exactly one axis', n)

    def reduce_(self, ctor, v, axis, node):
        self.plain(v, node)
        if v.kind == 'list':                     # np.sum([S, ...], axis=0): NumPy converts the list first
            v = self.stack(v, node)
        if (v.kind == 'V' and axis in (1, -1)) or (v.kind == 'T' and axis in (0, -2)):
            return Val('S', '(%s %s)' % (ctor, v.text), fresh=True)
        fail('reduction of a value of kind %s along axis %s is not row-wise' % (v.kind, axis), node)

    def stack(self, v, node):
        if not v.items or not all(x.kind == 'S' and x.masked is None for x in v.items):
            fail('np.array([...]) needs a non-empty list of per-row scalars', node)
        return Val('T', '(RStack [%s])' % '; '.join(x.text for x in v.items), fresh=True)

    def call(self, n):
        f = n.func
        fname = ast.unparse(f)
        # methods of array expressions
        if isinstance(f, ast.Attribute) and not (isinstance(f.value, ast.Name) and f.value.id == 'np'):
            if f.attr == 'astype':
                if len(n.args) != 1 or n.keywords or ast.unparse(n.args[0]) not in DTYPES:
                    fail('unsupported astype', n)
                v = self.plain(self.ex(f.value), f.value, ('S',))
                return Val('S', '(RAstype %s %s)' % (DTYPES[ast.unparse(n.args[0])], v.text), fresh=True)
            if f.attr in REDUCE:
                v = self.ex(f.value)
                return self.reduce_(REDUCE[f.attr], v, self.axis_of(n, n.args), n)
            fail('unsupported method', n)
        if fname == 'encode_many':
            if len(n.args) != 2 or n.keywords or not isinstance(n.args[0], ast.Name) or n.args[0].id not in PARAMS \
                    or not (isinstance(n.args[1], ast.Constant) and isinstance(n.args[1].value, bool)):
                fail('encode_many must be called as encode_many(<reference_labels|estimated_labels>, <True|False>)', n)
            if n.args[0].id in self.env:
                fail('parameter rebound', n)
            side = PARAMS[n.args[0].id]
            flag = n.args[1].value
            if self.reduce.setdefault(side, flag) != flag:
                fail('encode_many is called with different flags on the same labels', n)
            return Val('tuple', items=[Val('S', '(RRoot %s)' % side, origin=('root', side)),
                                       Val('V', '(RBitmap %s)' % side, origin=('bitmap', side)),
                                       Val('S', '(RBass %s)' % side, origin=('bass', side))])
        if fname == 'rotate_bitmaps_to_roots':
            if len(n.args) != 2 or n.keywords:
                fail('rotate_bitmaps_to_roots takes two positional arguments', n)
            a = self.plain(self.ex(n.args[0]), n.args[0], ('V',))
            b = self.plain(self.ex(n.args[1]), n.args[1], ('S',))
            if not (a.origin and b.origin and a.origin[0] == 'bitmap' and b.origin[0] == 'root' and a.origin[1] == b.origin[1]):
                fail('rotate_bitmaps_to_roots must be applied to the semitones and the roots of one encode_many result', n)
            return Val('V', '(RRot %s %s)' % (a.text, b.text), fresh=True)
        if fname == 'np.array':
            if len(n.args) != 1 or n.keywords:
                fail('np.array takes one argument here', n)
            v = self.plain(self.ex(n.args[0]), n.args[0])
            if v.kind == 'L':
                return Val('C', v.text)
            if v.kind == 'list' and v.items and all(x.kind == 'L' for x in v.items):
                return Val('M', items=[Val('C', x.text) for x in v.items])
            if v.kind == 'list':
                return self.stack(v, n)
            fail('unsupported argument of np.array', n)
        if fname in NPCMP:
            if len(n.args) != 2 or n.keywords:
                fail('two positional arguments expected', n)
            return self.binary('RCmp ' + NPCMP[fname], n.args[0], n.args[1], n)
        if fname in ('np.logical_and', 'np.logical_or'):
            if len(n.args) != 2 or n.keywords:
                fail('two positional arguments expected (the out= form is a statement)', n)
            return self.binary('RLAnd' if fname == 'np.logical_and' else 'RLOr', n.args[0], n.args[1], n, only=('S', 'K'))
        if fname in ('np.all', 'np.any', 'np.sum'):
            if not n.args:
                fail('missing argument', n)
            v = self.ex(n.args[0])
            return self.reduce_(REDUCE[fname[3:]], v, self.axis_of(n, n.args[1:]), n)
        if fname in ('np.ones', 'np.zeros'):
            kws = {k.arg: k.value for k in n.keywords}
            ok = (len(n.args) == 1 and set(kws) == {'dtype'} and ast.unparse(kws['dtype']) in DTYPES
                  and isinstance(n.args[0], ast.Attribute) and n.args[0].attr == 'shape')
            if not ok:
                fail('np.ones/np.zeros must be called as np.ones(x.shape, dtype=t)', n)
            self.plain(self.ex(n.args[0].value), n.args[0].value, ('S',))
            return Val('S', '(RFull %s %s)' % (DTYPES[ast.unparse(kws['dtype'])], zlit(1 if fname == 'np.ones' else 0)), fresh=True)
        fail('call outside the accepted fragment', n)

    # ---------------- statements ----------------
    def name_ok(self, x, node):
        if x in GLOBALS or x in PARAMS or not (x.isidentifier() and x.isascii()):
            fail('assignment to a reserved or unusual name %r' % x, node)

    def freeze_names(self, node):
        for m in ast.walk(node):
            if isinstance(m, ast.Name) and m.id in self.mutable:
                self.mutable[m.id] = False

    def bind(self, x, v, node, value_node):
        self.name_ok(x, node)
        self.plain(v, node)
        if v.kind in EMIT:
            self.stmts.append('SLet "%s" %s' % (x, v.text))
            self.env[x] = Val(v.kind, '(RVar "%s")' % x, origin=v.origin)
            self.mutable[x] = bool(v.fresh) and v.kind == 'S'
            if not v.fresh:
                self.freeze_names(value_node)     # x is an alias or a view of what it mentions
        elif v.kind in ('tuple', 'strs', 'M', 'list', 'L', 'str'):
            self.env[x] = v                        # translator-level constant / plumbing
            self.mutable.pop(x, None)
            self.freeze_names(value_node)
        else:
            fail('cannot bind a value of kind %s' % v.kind, node)

    def mutable_target(self, node):
        if not (isinstance(node, ast.Name) and node.id in self.env and self.env[node.id].kind == 'S'
                and self.mutable.get(node.id)):
            fail('the target of an in-place write must be a freshly allocated per-row array without aliases', node)
        return node.id

    def statement(self, s):
        if isinstance(s, ast.Assign):
            if len(s.targets) != 1:
                fail('chained assignment', s)
            t = s.targets[0]
            if isinstance(t, ast.Name):
                self.bind(t.id, self.ex(s.value), s, s.value)
                return
            if isinstance(t, ast.Tuple):
                v = self.plain(self.ex(s.value), s.value)
                if v.kind != 'tuple' or len(v.items) != len(t.elts) or not all(isinstance(e, ast.Name) for e in t.elts):
                    fail('tuple assignment must unpack an encode_many result of the same length', s)
                if len(set(e.id for e in t.elts)) != len(t.elts):
                    fail('repeated name in a tuple target', s)
                for e, item in zip(t.elts, v.items):
                    self.bind(e.id, item, s, s.value)
                return
            if isinstance(t, ast.Subscript):
                x = self.mutable_target(t.value)
                m = self.plain(self.ex(t.slice), t.slice, ('S',))
                v = self.ex(s.value)
                if v.masked is not None:
                    if not (isinstance(t.slice, ast.Name) and t.slice.id == v.masked):
                        fail('the right-hand side is indexed by a different mask than the target', s)
                    if v.kind != 'S':
                        fail('unsupported masked right-hand side', s)
                elif v.kind != 'K':
                    fail('a masked assignment stores a literal or a value indexed by the same mask', s)
                self.stmts.append('SMask "%s" %s %s' % (x, m.text, v.text))
                return
            fail('unsupported assignment target', s)
        if isinstance(s, ast.Expr) and isinstance(s.value, ast.Call):
            c = s.value
            fname = ast.unparse(c.func)
            if fname in ('np.logical_and', 'np.logical_or'):
                kws = {k.arg: k.value for k in c.keywords}
                if len(c.args) == 3 and not kws:
                    a, b, out = c.args
                elif len(c.args) == 2 and set(kws) == {'out'}:
                    (a, b), out = c.args, kws['out']
                else:
                    fail('unsupported form of an in-place logical operation', s)
                x = self.mutable_target(out)
                v = self.binary('RLAnd' if fname == 'np.logical_and' else 'RLOr', a, b, s, only=('S',))
                self.stmts.append('SMask "%s" (RBool true) %s' % (x, v.text))
                return
        fail('statement outside the accepted fragment', s)

    def run(self):
        fn = self.fn
        a = fn.args
        if fn.decorator_list or a.posonlyargs or a.kwonlyargs or a.vararg or a.kwarg or a.defaults \
                or [x.arg for x in a.args] != list(PARAMS):
            fail('%s: unexpected signature or decorator' % fn.name)
        body = list(fn.body)
        if body and isinstance(body[0], ast.Expr) and isinstance(body[0].value, ast.Constant) and isinstance(body[0].value.value, str):
            body = body[1:]
        if len(body) < 2:
            fail('%s: body too short' % fn.name)
        for sub in ast.walk(fn):
            if isinstance(sub, (ast.Lambda, ast.FunctionDef, ast.Global, ast.Nonlocal, ast.NamedExpr, ast.Starred, ast.Await, ast.Yield)) and sub is not fn:
                fail('%s: unsupported construct' % fn.name, sub)
        first, last = body[0], body[-1]
        if not (isinstance(first, ast.Expr) and ast.unparse(first.value) == 'validate(reference_labels, estimated_labels)'):
            fail('%s: the body must start with validate(reference_labels, estimated_labels)' % fn.name, first)
        if not (isinstance(last, ast.Return) and isinstance(last.value, ast.Name)):
            fail('%s: the body must end with "return <name>"' % fn.name, last)
        for s in body[1:-1]:
            self.statement(s)
        ret = last.value.id
        if ret not in self.env or self.env[ret].kind != 'S' or self.env[ret].text != '(RVar "%s")' % ret:
            fail('%s: the returned name is not a per-row array' % fn.name, last)
        if set(self.reduce) != {'Ref', 'Est'}:
            fail('%s: both label lists must be encoded' % fn.name)
        b = lambda x: 'true' if x else 'false'
        return ('{| rp_validate := true; rp_ref_reduce := %s; rp_est_reduce := %s;\n  rp_body := [\n    %s ];\n  rp_ret := "%s" |}'
                % (b(self.reduce['Ref']), b(self.reduce['Est']), ';\n    '.join(self.stmts), ret))


def check_module(tree):
    """The global names the bodies rely on are what they are expected to be."""
    for name in ('validate', 'encode_many', 'rotate_bitmaps_to_roots', 'rotate_bitmap_to_root', 'encode'):
        top_func(tree, name)                       # exactly one top-level def
    top_assign(tree, 'QUALITIES')                  # exactly one top-level assignment (translated by tables.py)
    if not any(isinstance(n, ast.Import) and any(al.name == 'numpy' and al.asname == 'np' for al in n.names) for n in tree.body):
        raise TranslationError('chordrules: "import numpy as np" not found')
    watched = set(GLOBALS) | {p for p, _ in RULES} | {'rotate_bitmap_to_root', 'encode'}
    count = {}
    for n in ast.walk(tree):
        targets = []
        if isinstance(n, ast.Assign):
            targets = n.targets
        elif isinstance(n, (ast.AugAssign, ast.AnnAssign)):
            targets = [n.target]
        elif isinstance(n, (ast.Import, ast.ImportFrom)):
            for al in n.names:
                nm = (al.asname or al.name).split('.')[0]
                count[nm] = count.get(nm, 0) + 1
        elif isinstance(n, (ast.FunctionDef, ast.ClassDef)) and n in tree.body:
            count[n.name] = count.get(n.name, 0) + 1
        for t in targets:
            for m in ast.walk(t):
                if isinstance(m, ast.Name) and isinstance(m.ctx, ast.Store) and n in tree.body:
                    count[m.id] = count.get(m.id, 0) + 1
    for w in watched:
        if count.get(w, 0) != 1:
            raise TranslationError('chordrules: the global name %r is bound %d times at module level' % (w, count.get(w, 0)))


def generate():
    tree = module('chord')
    check_module(tree)
    t = HEADER
    t += '(* row-wise programs of the chord comparison functions of chord.py; meaning: Model/RowExp.v *)\n'
    t += 'From Coq Require Import String.\nFrom Coq Require Import ZArith List.\nFrom ME Require Import Model.RowExp.\n'
    t += 'Import ListNotations.\nLocal Open Scope string_scope.\n'
    for py, coq in RULES:
        t += '(* chord.%s *)\nDefinition %s : rprog :=\n  %s.\n' % (py, coq, Body(top_func(tree, py)).run())
    t += 'Definition gen_rules : list rprog := [%s].\n' % '; '.join(c for _, c in RULES)
    return {'ChordRules.v': t}
