"""Vector metric functions -> coq/Gen/VecFuncs.v (programs of the language of coq/Model/VecExp.v).

  melody.voicing_recall, voicing_false_alarm, raw_pitch_accuracy, raw_chroma_accuracy, overall_accuracy
  multipitch.compute_accuracy, compute_err_score
  chord.weighted_accuracy
  tempo.detection
  alignment.absolute_error, percentage_correct, percentage_correct_segments

This file maps syntax only (Python ast, mir_eval is never imported; anything outside the fragment raises
TranslationError). What an operator does on each kind of value (dtypes, broadcasting, mask lengths, division
by zero, Python vs NumPy scalars) is defined by the evaluator of Model/VecExp.v, and Proofs/VecFuncsTie.v proves
each program equal to the hand-written model.

Accepted fragment
  statements   x = <expr> | x = [<expr>, ...] (a Python list of fixed length; x[i] = <expr> with a literal i)
               x[<mask expr>] = <literal>   only when x is bound to a freshly allocated array without aliases
               if <expr>: <block> [else: <block>] | return <expr> | return <e1>, ..., <ek> | raise <BuiltinError>(...)
               warnings.warn(<string literal>)           (dropped)
               <validator>(<args>)                       (kept as SCall; validators are tied elsewhere)
               for i, v in enumerate(<param>): <block>   only for the parameters listed in UNROLL, unrolled
                                                         that many times under an explicit SAssume(<param>.size == n)
  expressions  names, int/float/bool literals, unary -, not, and, or, + - * /, one comparison,
               np.sum(x) x.sum() sum(x), np.count_nonzero(x), np.abs abs np.floor, np.logical_and/or,
               np.minimum/np.maximum, np.min([a, b], axis=0) / np.max([a, b], axis=0), min(a, b) / max(a, b),
               np.min(x) np.max(x) x.min() x.max(), np.any np.all x.any() x.all(), len(x) x.size x.shape[0],
               float(x) bool(x), x.astype(float) np.asarray(x, dtype=float), x[<mask expr>], x[i] on a list,
               None, x is None / x is not None, x[lo:hi] and x[-k] with literal bounds, np.median np.mean,
               np.concatenate([a, b, ...]) of arrays and lists of numbers.
What this file decides itself: which variable a name denotes (scoping), the fixed length of Python lists, the
unrolling count (made explicit as SAssume and discharged in the proof), and freshness of in-place targets.
"""
import ast
from .common import module, top_func, cq_Q, TranslationError, HEADER

OUTPUTS = ['VecFuncs.v']

# (module, function, Coq name)
SPEC = [('melody', 'voicing_recall', 'gen_voicing_recall'),
        ('melody', 'voicing_false_alarm', 'gen_voicing_false_alarm'),
        ('melody', 'raw_pitch_accuracy', 'gen_raw_pitch_accuracy'),
        ('melody', 'raw_chroma_accuracy', 'gen_raw_chroma_accuracy'),
        ('melody', 'overall_accuracy', 'gen_overall_accuracy'),
        ('multipitch', 'compute_accuracy', 'gen_compute_accuracy'),
        ('multipitch', 'compute_err_score', 'gen_compute_err_score'),
        ('chord', 'weighted_accuracy', 'gen_weighted_accuracy'),
        ('tempo', 'detection', 'gen_detection'),
        ('alignment', 'absolute_error', 'gen_absolute_error'),
        ('alignment', 'percentage_correct', 'gen_percentage_correct'),
        ('alignment', 'percentage_correct_segments', 'gen_percentage_correct_segments')]
VALIDATORS = {('melody', 'validate_voicing'): 'X_melody_validate_voicing', ('melody', 'validate'): 'X_melody_validate',
              ('tempo', 'validate'): 'X_tempo_validate', ('alignment', 'validate'): 'X_alignment_validate'}
UNROLL = {('tempo', 'detection', 'reference_tempi'): 2}      # validate_tempi: tempi.size == 2
EXN = {'ValueError', 'TypeError', 'KeyError', 'IndexError', 'ZeroDivisionError'}
BIN = {ast.Add: 'BAdd', ast.Sub: 'BSub', ast.Mult: 'BMul', ast.Div: 'BDiv'}
CMP = {ast.Eq: 'VEq', ast.NotEq: 'VNe', ast.Lt: 'VLt', ast.LtE: 'VLe', ast.Gt: 'VGt', ast.GtE: 'VGe'}
FLOATS = {'float', 'np.float64', 'np.float_'}
RESERVED = {'np', 'warnings', 'sum', 'len', 'float', 'bool', 'abs', 'min', 'max', 'enumerate'}


def fail(msg, node=None):
    where = ''
    if node is not None:
        where = ' at line %s: %s' % (getattr(node, 'lineno', '?'), ast.unparse(node)[:160])
    raise TranslationError('vecfuncs: ' + msg + where)


def coq_str(s):
    if not (s.isascii() and '"' not in s):
        fail('unusual name %r' % s)
    return '"%s"' % s


class Fn:
    def __init__(self, mod, fn):
        self.mod, self.fn = mod, fn
        self.params = [a.arg for a in fn.args.args]
        self.scope = set(self.params)     # array / scalar variables (Coq-level)
        self.lists = {}                   # Python lists of fixed length: name -> n
        self.consts = {}                  # unrolled loop indices: name -> int
        self.fresh = {}                   # name -> may be written in place

    # ---------- expressions ----------
    def num(self, c, node):
        if c is None:
            return 'ENone'
        if isinstance(c, bool):
            return '(EBool %s)' % ('true' if c else 'false')
        if isinstance(c, int) and abs(c) < 2 ** 62:
            return '(EInt (%d)%%Z)' % c
        if isinstance(c, float) and c == c and abs(c) < 1e300:
            return '(EFloat %s%%Q)' % cq_Q(c)
        fail('unsupported literal', node)

    def var(self, name, node):
        if name in self.consts:
            return '(EInt (%d)%%Z)' % self.consts[name]
        if name in self.lists:
            return '(EList [%s])' % '; '.join('(EVar %s)' % coq_str('%s#%d' % (name, i)) for i in range(self.lists[name]))
        if name in self.scope:
            return '(EVar %s)' % coq_str(name)
        fail('unknown name %r' % name, node)

    def no_kw(self, n, k=None):
        if n.keywords or (k is not None and len(n.args) != k):
            fail('unexpected arguments', n)

    def pair_of(self, node):
        """[a, b] list literal of two expressions (np.min([a, b], axis=0))"""
        if isinstance(node, ast.List) and len(node.elts) == 2:
            return node.elts
        fail('expected a list of two arrays', node)

    def ex(self, n):
        if isinstance(n, ast.Constant):
            return self.num(n.value, n)
        if isinstance(n, ast.Name):
            return self.var(n.id, n)
        if isinstance(n, ast.List):
            if not n.elts:
                fail('empty list', n)
            return '(EList [%s])' % '; '.join(self.ex(x) for x in n.elts)
        if isinstance(n, ast.UnaryOp):
            if isinstance(n.op, ast.USub) and isinstance(n.operand, ast.Constant) and isinstance(n.operand.value, (int, float)) \
                    and not isinstance(n.operand.value, bool):
                return self.num(-n.operand.value, n)
            if isinstance(n.op, ast.Not):
                return '(EPyNot %s)' % self.ex(n.operand)
            fail('unsupported unary operator', n)
        if isinstance(n, ast.BinOp):
            if type(n.op) not in BIN:
                fail('unsupported binary operator', n)
            return '(EBin %s %s %s)' % (BIN[type(n.op)], self.ex(n.left), self.ex(n.right))
        if isinstance(n, ast.Compare) and len(n.ops) == 1 and isinstance(n.ops[0], (ast.Is, ast.IsNot)):
            c = n.comparators[0]
            if not (isinstance(c, ast.Constant) and c.value is None):
                fail('`is` is accepted against None only', n)
            e = '(EIsNone %s)' % self.ex(n.left)
            return e if isinstance(n.ops[0], ast.Is) else '(EPyNot %s)' % e
        if isinstance(n, ast.Compare):
            if len(n.ops) != 1 or type(n.ops[0]) not in CMP:
                fail('unsupported comparison', n)
            return '(ECmp %s %s %s)' % (CMP[type(n.ops[0])], self.ex(n.left), self.ex(n.comparators[0]))
        if isinstance(n, ast.BoolOp):
            comb = 'EPyAnd' if isinstance(n.op, ast.And) else 'EPyOr'
            parts = [self.ex(x) for x in n.values]
            out = parts[-1]
            for p in reversed(parts[:-1]):
                out = '(%s %s %s)' % (comb, p, out)
            return out
        if isinstance(n, ast.Attribute):
            if n.attr == 'size':
                return '(ERed RSize %s)' % self.ex(n.value)
            fail('unsupported attribute', n)
        if isinstance(n, ast.Subscript):
            s = n.slice
            if isinstance(n.value, ast.Attribute) and n.value.attr == 'shape':
                if isinstance(s, ast.Constant) and s.value == 0:
                    return '(ERed RSize %s)' % self.ex(n.value.value)
                fail('only .shape[0] is accepted', n)
            i = None
            if isinstance(s, ast.Constant) and isinstance(s.value, int) and not isinstance(s.value, bool):
                i = s.value
            elif isinstance(s, ast.Name) and s.id in self.consts:
                i = self.consts[s.id]
            if i is not None and i < 0 and not (isinstance(n.value, ast.Name) and n.value.id in self.lists):
                return '(EItemZ %s (%d)%%Z)' % (self.ex(n.value), i)
            if i is not None:
                if i < 0:
                    fail('negative index', n)
                if isinstance(n.value, ast.Name) and n.value.id in self.lists:
                    if i >= self.lists[n.value.id]:
                        fail('list index out of range', n)
                    return '(EVar %s)' % coq_str('%s#%d' % (n.value.id, i))
                return '(EItem %s %d%%nat)' % (self.ex(n.value), i)
            if isinstance(s, ast.Slice):
                if s.step is not None:
                    fail('slice step', n)

                def bound(b):
                    if b is None:
                        return 'None'
                    if isinstance(b, ast.Constant) and isinstance(b.value, int) and not isinstance(b.value, bool):
                        return '(Some (%d)%%Z)' % b.value
                    if isinstance(b, ast.UnaryOp) and isinstance(b.op, ast.USub) and isinstance(b.operand, ast.Constant) \
                            and isinstance(b.operand.value, int) and not isinstance(b.operand.value, bool):
                        return '(Some (%d)%%Z)' % (-b.operand.value)
                    fail('slice bounds must be integer literals', n)
                return '(ESlice %s %s %s)' % (bound(s.lower), bound(s.upper), self.ex(n.value))
            if isinstance(s, ast.UnaryOp) and isinstance(s.op, ast.USub) and isinstance(s.operand, ast.Constant) \
                    and isinstance(s.operand.value, int) and not isinstance(s.operand.value, bool) and s.operand.value > 0:
                return '(EItemZ %s (%d)%%Z)' % (self.ex(n.value), -s.operand.value)
            if isinstance(s, ast.Tuple):
                fail('unsupported index', n)
            return '(EMask %s %s)' % (self.ex(n.value), self.ex(s))
        if isinstance(n, ast.Call):
            return self.call(n)
        fail('expression outside the accepted fragment', n)

    def call(self, n):
        f = n.func
        name = ast.unparse(f)
        kws = {k.arg: k.value for k in n.keywords}
        if None in kws:
            fail('**kwargs', n)
        # methods
        if isinstance(f, ast.Attribute) and not (isinstance(f.value, ast.Name) and f.value.id in ('np', 'warnings')):
            red = {'sum': 'RSum', 'any': 'RAny', 'all': 'RAll', 'min': 'RMinV', 'max': 'RMaxV'}
            if f.attr in red:
                self.no_kw(n, 0)
                return '(ERed %s %s)' % (red[f.attr], self.ex(f.value))
            if f.attr == 'astype':
                self.no_kw(n, 1)
                if ast.unparse(n.args[0]) not in FLOATS:
                    fail('only astype(float) is accepted', n)
                return '(EAstype TFloat %s)' % self.ex(f.value)
            fail('unsupported method', n)
        one = {'np.sum': 'ERed RSum', 'sum': 'ERed RSum', 'np.count_nonzero': 'ERed RCount', 'len': 'ERed RSize',
               'np.abs': 'EUn UAbs', 'np.absolute': 'EUn UAbs', 'abs': 'EUn UAbs', 'np.floor': 'EUn UFloor',
               'np.any': 'ERed RAny', 'np.all': 'ERed RAll', 'float': 'EPyFloat', 'bool': 'EPyBool',
               'np.median': 'ERed RMedian', 'np.mean': 'ERed RMean'}
        if name in one:
            self.no_kw(n, 1)
            return '(%s %s)' % (one[name], self.ex(n.args[0]))
        if name in ('np.logical_and', 'np.logical_or'):
            self.no_kw(n, 2)
            return '(ELogic %s %s %s)' % ('true' if name.endswith('and') else 'false', self.ex(n.args[0]), self.ex(n.args[1]))
        if name in ('np.minimum', 'np.maximum', 'min', 'max'):
            self.no_kw(n, 2)
            return '(EBin %s %s %s)' % ('BMin' if name.endswith(('min', 'minimum')) else 'BMax', self.ex(n.args[0]), self.ex(n.args[1]))
        if name in ('np.min', 'np.max'):
            if len(n.args) != 1:
                fail('one positional argument expected', n)
            if not kws:
                return '(ERed %s %s)' % ('RMinV' if name == 'np.min' else 'RMaxV', self.ex(n.args[0]))
            if set(kws) == {'axis'} and isinstance(kws['axis'], ast.Constant) and kws['axis'].value == 0:
                a, b = self.pair_of(n.args[0])
                return '(EBin %s %s %s)' % ('BMin' if name == 'np.min' else 'BMax', self.ex(a), self.ex(b))
            fail('unsupported form of np.min / np.max', n)
        if name == 'np.concatenate':
            self.no_kw(n, 1)
            if not (isinstance(n.args[0], ast.List) and n.args[0].elts):
                fail('np.concatenate needs a list literal of arrays', n)
            return '(EConcat [%s])' % '; '.join(self.ex(x) for x in n.args[0].elts)
        if name == 'np.asarray':
            if len(n.args) != 1 or set(kws) != {'dtype'} or ast.unparse(kws['dtype']) not in FLOATS:
                fail('only np.asarray(x, dtype=float) is accepted', n)
            return '(EAstype TFloat %s)' % self.ex(n.args[0])
        fail('call outside the accepted fragment', n)

    # ---------- statements ----------
    def is_fresh(self, node):
        """the value is a newly allocated array: an arithmetic / comparison result, a reduction-free NumPy call,
        a boolean-mask selection (a copy) -- not a name, not np.asarray (may alias)"""
        if isinstance(node, (ast.BinOp, ast.Compare)):
            return True
        if isinstance(node, ast.Subscript) and not isinstance(node.slice, (ast.Constant, ast.Slice, ast.Tuple)):
            return True
        if isinstance(node, ast.Call):
            nm = ast.unparse(node.func)
            return nm in ('np.abs', 'np.absolute', 'np.floor', 'np.logical_and', 'np.logical_or', 'np.minimum', 'np.maximum') \
                or nm.endswith('.astype')
        return False

    def freeze(self, node):
        for m in ast.walk(node):
            if isinstance(m, ast.Name) and m.id in self.fresh:
                self.fresh[m.id] = False

    def bind_name(self, x, node):
        if x in RESERVED or not (x.isidentifier() and x.isascii()) or '#' in x:
            fail('assignment to a reserved or unusual name %r' % x, node)
        if x in self.consts:
            fail('assignment to a loop index', node)

    def harmless(self, node):
        """arguments of an exception constructor: literals, names, .shape[0]/.size, '...'.format(...)"""
        for m in ast.walk(node):
            ok = isinstance(m, (ast.Constant, ast.Name, ast.Load, ast.Attribute, ast.Subscript, ast.Call, ast.JoinedStr, ast.FormattedValue))
            if isinstance(m, ast.Call):
                ok = (isinstance(m.func, ast.Attribute) and m.func.attr == 'format' and isinstance(m.func.value, ast.Constant)
                      and not m.keywords) or (ast.unparse(m.func) in ('np.max', 'np.min', 'type', 'len') and len(m.args) == 1
                                              and isinstance(m.args[0], ast.Name) and not m.keywords)
            if not ok:
                return False
        return True

    def block(self, stmts):
        out = []
        for i, s in enumerate(stmts):
            out.extend(self.statement(s))
            if isinstance(s, (ast.Return, ast.Raise)) and i + 1 < len(stmts):
                fail('statement after return / raise', stmts[i + 1])
        return out

    def blk(self, stmts):
        return '[%s]' % '; '.join(self.block(stmts))

    def statement(self, s):
        if isinstance(s, ast.Expr) and isinstance(s.value, ast.Call):
            c = s.value
            name = ast.unparse(c.func)
            if name == 'warnings.warn':
                if len(c.args) != 1 or c.keywords or not (isinstance(c.args[0], ast.Constant) and isinstance(c.args[0].value, str)):
                    fail('warnings.warn must be given a string literal', s)
                return []
            if (self.mod, name) in VALIDATORS:
                if c.keywords:
                    fail('keyword arguments in a validator call', s)
                return ['SCall %s [%s]' % (VALIDATORS[(self.mod, name)], '; '.join(self.ex(a) for a in c.args))]
            fail('call statement outside the accepted fragment', s)
        if isinstance(s, ast.Assign):
            if len(s.targets) != 1:
                fail('chained assignment', s)
            t = s.targets[0]
            if isinstance(t, ast.Name):
                self.bind_name(t.id, s)
                if isinstance(s.value, ast.List):
                    if not s.value.elts or t.id in self.scope:
                        fail('unsupported list assignment', s)
                    elems = [self.ex(e) for e in s.value.elts]
                    self.lists[t.id] = len(elems)
                    return ['SLet %s %s' % (coq_str('%s#%d' % (t.id, i)), e) for i, e in enumerate(elems)]
                if t.id in self.lists:
                    fail('rebinding a list variable', s)
                e = self.ex(s.value)
                self.scope.add(t.id)
                fresh = self.is_fresh(s.value)
                self.fresh[t.id] = fresh
                if not fresh:
                    self.freeze(s.value)
                return ['SLet %s %s' % (coq_str(t.id), e)]
            if isinstance(t, ast.Subscript) and isinstance(t.value, ast.Name):
                x = t.value.id
                if x in self.lists:
                    i = t.slice.value if isinstance(t.slice, ast.Constant) else self.consts.get(getattr(t.slice, 'id', None))
                    if not isinstance(i, int) or isinstance(i, bool) or not 0 <= i < self.lists[x]:
                        fail('a list element must be assigned at a literal index within its length', s)
                    return ['SLet %s %s' % (coq_str('%s#%d' % (x, i)), self.ex(s.value))]
                if x in self.scope and self.fresh.get(x):
                    if not (isinstance(s.value, ast.Constant) or (isinstance(s.value, ast.UnaryOp) and isinstance(s.value.operand, ast.Constant))):
                        fail('a masked assignment stores a literal', s)
                    if isinstance(t.slice, (ast.Constant, ast.Slice, ast.Tuple)):
                        fail('a masked assignment needs a boolean-mask index', s)
                    return ['SMaskSet %s %s %s' % (coq_str(x), self.ex(t.slice), self.ex(s.value))]
                fail('the target of an in-place write must be a freshly allocated local array without aliases', s)
            fail('unsupported assignment target', s)
        if isinstance(s, ast.If):
            c = self.ex(s.test)
            return ['SIf %s %s %s' % (c, self.blk(s.body), self.blk(s.orelse))]
        if isinstance(s, ast.Return):
            if s.value is None:
                fail('bare return', s)
            es = s.value.elts if isinstance(s.value, ast.Tuple) else [s.value]
            return ['SReturn [%s]' % '; '.join(self.ex(e) for e in es)]
        if isinstance(s, ast.Raise):
            e = s.exc
            name = e.func.id if isinstance(e, ast.Call) and isinstance(e.func, ast.Name) else None
            if s.cause is not None or name not in EXN or e.keywords or not all(self.harmless(a) for a in e.args):
                fail('unsupported raise', s)
            return ['SRaise %s' % name]
        if isinstance(s, ast.For):
            return self.loop(s)
        fail('statement outside the accepted fragment', s)

    def loop(self, s):
        it = s.iter
        ok = (not s.orelse and isinstance(it, ast.Call) and ast.unparse(it.func) == 'enumerate' and len(it.args) == 1
              and not it.keywords and isinstance(it.args[0], ast.Name) and isinstance(s.target, ast.Tuple)
              and len(s.target.elts) == 2 and all(isinstance(e, ast.Name) for e in s.target.elts))
        if not ok:
            fail('only  for i, v in enumerate(<parameter>)  is accepted', s)
        arr = it.args[0].id
        n = UNROLL.get((self.mod, self.fn.name, arr))
        if n is None or arr not in self.params:
            fail('no unrolling count is declared for %r' % arr, s)
        idx, elt = s.target.elts[0].id, s.target.elts[1].id
        self.bind_name(idx, s)
        self.bind_name(elt, s)
        if idx in self.scope or idx in self.lists or elt in self.lists:
            fail('loop variable shadows another name', s)
        for sub in ast.walk(s):
            if isinstance(sub, (ast.Break, ast.Continue, ast.Return)):
                fail('break / continue / return inside a loop', sub)
            if isinstance(sub, ast.Assign) and any(isinstance(t, ast.Name) and t.id == arr for t in sub.targets):
                fail('the iterated array is rebound in the loop', sub)
        out = ['SAssume (ECmp VEq (ERed RSize (EVar %s)) (EInt (%d)%%Z))' % (coq_str(arr), n)]
        for i in range(n):
            self.consts[idx] = i
            self.scope.add(elt)
            self.fresh[elt] = False
            out.append('SLet %s (EItem (EVar %s) %d%%nat)' % (coq_str(elt), coq_str(arr), i))
            out.extend(self.block(s.body))
        del self.consts[idx]        # after the loop the index is no longer a known literal
        return out

    def run(self):
        fn, a = self.fn, self.fn.args
        if fn.decorator_list or a.posonlyargs or a.kwonlyargs or a.vararg or a.kwarg:
            fail('%s: unexpected signature or decorator' % fn.name)
        if len(set(self.params)) != len(self.params) or any(p in RESERVED for p in self.params):
            fail('%s: unusual parameters' % fn.name)
        for sub in ast.walk(fn):
            if isinstance(sub, (ast.Lambda, ast.FunctionDef, ast.Global, ast.Nonlocal, ast.NamedExpr, ast.Await, ast.Yield,
                                ast.While, ast.Try, ast.With, ast.Starred, ast.AugAssign, ast.Delete)) and sub is not fn:
                fail('%s: unsupported construct' % fn.name, sub)
        body = list(fn.body)
        if body and isinstance(body[0], ast.Expr) and isinstance(body[0].value, ast.Constant) and isinstance(body[0].value.value, str):
            body = body[1:]
        stmts = self.block(body)
        return ('{| vp_params := [%s];\n  vp_body := [\n    %s ] |}'
                % ('; '.join(coq_str(p) for p in self.params), ';\n    '.join(stmts)))


def check_module(tree, mod):
    """np / warnings are the usual imports; the validators called are top-level functions defined once"""
    imports = [(al.name, al.asname) for n in tree.body if isinstance(n, ast.Import) for al in n.names]
    if ('numpy', 'np') not in imports or (('warnings', None) not in imports and mod != 'alignment'):
        raise TranslationError('vecfuncs: %s: numpy / warnings are not imported as expected' % mod)
    for (m, name) in VALIDATORS:
        if m == mod:
            top_func(tree, name)
    for n in tree.body:
        targets = n.targets if isinstance(n, ast.Assign) else []
        for t in targets:
            for x in ast.walk(t):
                if isinstance(x, ast.Name) and (x.id in RESERVED or (mod, x.id) in VALIDATORS):
                    raise TranslationError('vecfuncs: %s rebinds %s at module level' % (mod, x.id))


def generate():
    t = HEADER
    t += '(* vector metric functions as programs of Model/VecExp.v *)\n'
    t += 'From Coq Require Import String.\nFrom Coq Require Import List ZArith QArith.\nFrom ME Require Import Model.Prelude Model.VecExp.\n'
    t += 'Import ListNotations.\nLocal Open Scope string_scope.\n'
    trees = {}
    for mod, py, coq in SPEC:
        if mod not in trees:
            trees[mod] = module(mod)
            check_module(trees[mod], mod)
        t += '(* %s.%s *)\nDefinition %s : vprog :=\n  %s.\n' % (mod, py, coq, Fn(mod, top_func(trees[mod], py)).run())
    return {'VecFuncs.v': t}
