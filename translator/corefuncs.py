"""Numeric cores that used to be tied by sampling only -> coq/Gen/CoreFuncsGen.v (+ the Gen files of the sub-translators)

  segment.py   _contingency_matrix, _adjusted_rand_index, _mutual_info_score, _entropy
               as programs of the Python / NumPy / SciPy sub-language of coq/Model/SegExp.v
  (sub-translators, merged here so that one registered name regenerates all of them:
   translator/corefuncs_dhd.py  chord.directional_hamming_distance, translator/corefuncs_pscore.py  beat.p_score)

This file maps syntax only (Python ast; mir_eval is never imported; anything outside the fragment raises
TranslationError). What an operator / NumPy / SciPy function does on each type of value is defined by the evaluator of
Model/SegExp.v; Proofs/CoreFuncsTie.v proves every generated program equal to the hand-written model of
Model/SegmentCluster.v (exact integer / rational cores) or to an explicit float term (entropic cores, log opaque).

Accepted fragment
  def          positional-or-keyword parameters, defaults = literal (None / bool / int / float); no decorator, *args, **kwargs
  statements   x = e | a, b = e | x op= e (op: + - * /) | f(...) for a known callee | if / elif / else |
               for <name> in e: (no else / break / continue) | return [e] | pass   (no statement after a return in a block)
  expressions  parameters and locals, None / bool / int / float literals, tuples, comparison chains (== != < <= > >=),
               `e is None`, not / and / or, + - * /, unary -, e[i] (no slices, no multi-index), e.shape,
               e.sum() e.sum(axis=k) e.flatten() e.astype(float | np.float64),
               len(e) float(e) sum(<body> for <name> in <e>),
               np.unique(e) np.unique(e, return_inverse=True) np.ones(e) np.bincount(e) np.sum(e) np.sum(e, axis=k)
               np.outer(a, b) np.log(e),
               scipy.special.comb(n, 2, exact=1|True)  scipy.special.comb(n, 2),
               scipy.sparse.coo_matrix((data, (rows, cols)), shape=(R, C), dtype=np.int64).toarray(),
               calls of FUNCS (opaque callees, arguments as written: positional and keyword).
What this file decides itself
  * which names are locals (assigned anywhere in the body; a generator variable is local to its generator and must not
    clash with another name); that `np` is numpy and `scipy.*` are the scipy sub-packages (bound once, by import), that
    every callee has exactly one top-level def and is not rebound, that the names given a fixed meaning are not shadowed;
  * the aliasing side condition of `x op= e` (in place on an array): x is a local bound by exactly one plain assignment
    whose value is e0[<name>] (a boolean-mask / scalar index: a copy) or arithmetic / a NumPy call, x is no loop or
    unpacking target, and every other occurrence of x only computes a new value from it (operand, .sum(), argument of
    np.log / np.sum).
"""
import ast
import importlib
from fractions import Fraction
from .common import module, top_func, TranslationError, HEADER

SUBMODULES = ['corefuncs_dhd', 'corefuncs_pscore']      # sub-translators whose generate() / OUTPUTS are merged into this one
OUTPUTS = ['CoreFuncsGen.v']

FUNCS = ['_contingency_matrix', '_adjusted_rand_index', '_mutual_info_score', '_entropy']
NP = {'ones': 1, 'bincount': 1, 'outer': 2, 'log': 1, 'maximum': 2, 'minimum': 2, 'resize': 2}      # positional arguments only
CMP = {ast.Eq: 'Eq', ast.NotEq: 'Ne', ast.Lt: 'Lt', ast.LtE: 'Le', ast.Gt: 'Gt', ast.GtE: 'Ge'}
BIN = {ast.Add: 'Add', ast.Sub: 'Sub', ast.Mult: 'Mul', ast.Div: 'Div'}
RESERVED = {'np', 'scipy', 'util', 'len', 'float', 'sum', 'range', 'max', 'min', 'int', 'True', 'False', 'None'} | set(FUNCS)


def fail(msg, node=None):
    where = ''
    if node is not None:
        where = ' at line %s: %s' % (getattr(node, 'lineno', '?'), ast.unparse(node)[:160])
    raise TranslationError('corefuncs: ' + msg + where)


def cstr(s):
    if not (isinstance(s, str) and s.replace('.', '_').isidentifier() and s.isascii()):
        fail('unusual name %r' % (s,))
    return '"%s"' % s


def cz(n):
    if isinstance(n, bool) or not isinstance(n, int) or abs(n) >= 2 ** 62:
        fail('unsupported integer literal %r' % (n,))
    return '(%d)%%Z' % n


def cq(x):
    if not isinstance(x, float) or x != x or x in (float('inf'), float('-inf')):
        fail('unsupported float literal %r' % (x,))
    f = Fraction(x)
    if f.numerator < 0:
        return '((%d)#%d)%%Q' % (f.numerator, f.denominator)
    return '(%d#%d)%%Q' % (f.numerator, f.denominator)


def clist(items):
    return '[' + '; '.join(items) + ']'


def dotted(n):
    """a.b.c -> 'a.b.c' for a pure Name / Attribute chain, else None"""
    parts = []
    while isinstance(n, ast.Attribute):
        parts.append(n.attr)
        n = n.value
    if isinstance(n, ast.Name):
        parts.append(n.id)
        return '.'.join(reversed(parts))
    return None


# ----------------------------------------------------------------------------- module-level checks
def check_module(tree):
    tops = {}
    for n in tree.body:
        if isinstance(n, (ast.FunctionDef, ast.ClassDef, ast.AsyncFunctionDef)):
            tops.setdefault(n.name, []).append(n)
        elif isinstance(n, (ast.Import, ast.ImportFrom)):
            for a in n.names:
                tops.setdefault((a.asname or a.name).split('.')[0], []).append(n)
        elif isinstance(n, (ast.Assign, ast.AugAssign, ast.AnnAssign)):
            for t in (n.targets if isinstance(n, ast.Assign) else [n.target]):
                for m in ast.walk(t):
                    if isinstance(m, ast.Name):
                        tops.setdefault(m.id, []).append(n)
        elif isinstance(n, ast.Expr) and isinstance(n.value, ast.Constant):
            pass
        else:
            fail('module-level statement other than import / def / assignment (names may be rebound)', n)
    np_ok = [n for n in tops.get('np', []) if isinstance(n, ast.Import) and len(n.names) == 1
             and n.names[0].name == 'numpy' and n.names[0].asname == 'np']
    if len(tops.get('np', [])) != 1 or len(np_ok) != 1:
        fail('`np` is not bound exactly once by `import numpy as np`')
    sc = tops.get('scipy', [])
    if not sc or not all(isinstance(n, ast.Import) and len(n.names) == 1 and n.names[0].asname is None
                         and n.names[0].name.split('.')[0] == 'scipy' for n in sc):
        fail('`scipy` is bound by something other than `import scipy.<sub>`')
    subs = {n.names[0].name for n in sc}
    for need in ('scipy.sparse', 'scipy.special'):
        if need not in subs:
            fail('%s is not imported' % need)
    for b in ('len', 'float', 'sum', 'range', 'max', 'min', 'int'):
        if b in tops:
            fail('builtin %s is rebound at module level' % b)
    for f in FUNCS:
        if len(tops.get(f, [])) != 1 or not isinstance(tops[f][0], ast.FunctionDef):
            fail('%s is not bound exactly once, by a top-level def' % f)
    watched = set(FUNCS) | {'np', 'scipy', 'len', 'float', 'sum', 'range', 'max', 'min', 'int'}
    for n in ast.walk(tree):
        if isinstance(n, (ast.Global, ast.Nonlocal)) and watched & set(n.names):
            fail('global / nonlocal declaration of a name with a fixed meaning', n)
        if isinstance(n, ast.Name) and n.id in watched and isinstance(n.ctx, (ast.Store, ast.Del)):
            fail('second binding of the name %s' % n.id, n)
        if isinstance(n, ast.Attribute) and isinstance(n.ctx, (ast.Store, ast.Del)):
            d = dotted(n)
            if d is not None and d.split('.')[0] in watched:
                fail('attribute of %s is rebound' % d.split('.')[0], n)
        if isinstance(n, ast.arg) and n.arg in watched:
            fail('a parameter shadows %s' % n.arg, n)


# ----------------------------------------------------------------------------- one function
class Fn:
    def __init__(self, node):
        self.node = node
        self.name = node.name
        a = node.args
        if node.decorator_list or a.posonlyargs or a.kwonlyargs or a.vararg or a.kwarg or node.returns is not None:
            fail('%s: unexpected signature or decorator' % self.name, node)
        self.params = [x.arg for x in a.args]
        if any(x.annotation is not None for x in a.args):
            fail('%s: annotated parameter' % self.name, node)
        nd = len(a.defaults)
        self.defaults = [None] * (len(self.params) - nd) + list(a.defaults)
        for sub in ast.walk(node):
            if sub is not node and isinstance(sub, (
                    ast.Lambda, ast.FunctionDef, ast.AsyncFunctionDef, ast.ClassDef, ast.Global, ast.Nonlocal, ast.NamedExpr,
                    ast.Await, ast.Yield, ast.YieldFrom, ast.While, ast.Try, ast.With, ast.Break, ast.Continue, ast.Delete,
                    ast.Import, ast.ImportFrom, ast.Starred, ast.SetComp, ast.DictComp,
                    ast.AnnAssign, ast.JoinedStr, ast.Set, ast.Dict, ast.IfExp, ast.Raise, ast.Assert, ast.List)):
                fail('%s: unsupported construct %s' % (self.name, type(sub).__name__), sub)
        # generator variables are local to their generator
        self.genvars = set()
        gen_targets = set()
        for sub in ast.walk(node):
            if isinstance(sub, (ast.GeneratorExp, ast.ListComp)):
                for c in sub.generators:
                    if not isinstance(c.target, ast.Name):
                        fail('%s: generator target is not a name' % self.name, sub)
                    self.genvars.add(c.target.id)
                    gen_targets.add(id(c.target))
        self.locals = []
        stores = [sub for sub in ast.walk(node) if isinstance(sub, ast.Name) and isinstance(sub.ctx, ast.Store)
                  and id(sub) not in gen_targets]
        for sub in sorted(stores, key=lambda m: (m.lineno, m.col_offset)):
            if sub.id not in self.params and sub.id not in self.locals:
                self.locals.append(sub.id)
        for x in self.params + self.locals + sorted(self.genvars):
            if not (x.isidentifier() and x.isascii()) or x in RESERVED:
                fail('%s: the local name %r shadows a name this translator gives a fixed meaning' % (self.name, x), node)
        if len(set(self.params)) != len(self.params):
            fail('%s: duplicate parameter' % self.name, node)
        if self.genvars & (set(self.params) | set(self.locals)):
            fail('%s: a generator variable has the name of a parameter or local' % self.name, node)
        self.body = list(node.body)
        if self.body and isinstance(self.body[0], ast.Expr) and isinstance(self.body[0].value, ast.Constant) \
                and isinstance(self.body[0].value.value, str):
            self.body = self.body[1:]
        self.scope = []                 # generator variables in scope while an expression is translated
        self.check_aug()

    # ---- aliasing side condition of  x op= e ----
    def check_aug(self):
        parent = {}
        for p in ast.walk(self.node):
            for c in ast.iter_child_nodes(p):
                parent[id(c)] = p
        augs = {}
        for sub in ast.walk(self.node):
            if isinstance(sub, ast.AugAssign):
                if not isinstance(sub.target, ast.Name):
                    fail('%s: augmented assignment to something other than a name' % self.name, sub)
                augs.setdefault(sub.target.id, []).append(sub)
        for x, sites in augs.items():
            if x not in self.locals:
                fail('%s: augmented assignment to %r, which is not a local' % (self.name, x), sites[0])
            binds = []
            for sub in ast.walk(self.node):
                if isinstance(sub, ast.Assign):
                    for t in sub.targets:
                        if isinstance(t, ast.Name) and t.id == x:
                            binds.append(sub)
                        elif any(isinstance(m, ast.Name) and m.id == x for m in ast.walk(t)):
                            fail('%s: %r is updated in place but is an unpacking target' % (self.name, x), sub)
                if isinstance(sub, ast.For) and any(isinstance(m, ast.Name) and m.id == x for m in ast.walk(sub.target)):
                    fail('%s: %r is updated in place but bound by a loop' % (self.name, x), sub)
            if len(binds) != 1:
                fail('%s: %r is updated in place but bound %d times' % (self.name, x, len(binds)), sites[0])
            v = binds[0].value
            fresh = isinstance(v, (ast.BinOp, ast.UnaryOp, ast.Constant)) \
                or (isinstance(v, ast.Subscript) and isinstance(v.slice, ast.Name)) \
                or (isinstance(v, ast.Call) and dotted(v.func) is not None and dotted(v.func).startswith('np.'))
            if not fresh:
                fail('%s: %r is updated in place but bound to something that may be shared' % (self.name, x), binds[0])
            for sub in ast.walk(self.node):
                if not (isinstance(sub, ast.Name) and sub.id == x and isinstance(sub.ctx, ast.Load)):
                    continue
                p = parent[id(sub)]
                ok = isinstance(p, (ast.BinOp, ast.UnaryOp, ast.Compare)) \
                    or (isinstance(p, ast.Attribute) and p.value is sub and p.attr == 'sum') \
                    or (isinstance(p, ast.Call) and sub in p.args and dotted(p.func) in ('np.log', 'np.sum'))
                if not ok:
                    fail('%s: %r is updated in place and may become shared here' % (self.name, x), p)

    # ---- expressions ----
    def ex(self, n):
        if isinstance(n, ast.Constant):
            c = n.value
            if c is None:
                return 'ENone'
            if isinstance(c, bool):
                return '(EBool %s)' % ('true' if c else 'false')
            if isinstance(c, int):
                return '(EInt %s)' % cz(c)
            if isinstance(c, float):
                return '(EFloat %s)' % cq(c)
            fail('unsupported literal', n)
        if isinstance(n, ast.Name):
            if not isinstance(n.ctx, ast.Load):
                fail('unexpected store', n)
            if n.id in self.scope or n.id in self.params or n.id in self.locals:
                return '(ELoc %s)' % cstr(n.id)
            fail('name %r is not a parameter, local or generator variable in scope' % n.id, n)
        if isinstance(n, ast.Tuple):
            return '(ETuple %s)' % clist([self.ex(x) for x in n.elts])
        if isinstance(n, ast.UnaryOp):
            if isinstance(n.op, ast.Not):
                return '(ENot %s)' % self.ex(n.operand)
            if isinstance(n.op, ast.USub):
                return '(ENeg %s)' % self.ex(n.operand)
            fail('unsupported unary operator', n)
        if isinstance(n, ast.BoolOp):
            comb = 'EAnd' if isinstance(n.op, ast.And) else 'EOr'
            parts = [self.ex(x) for x in n.values]
            out = parts[-1]
            for p in reversed(parts[:-1]):
                out = '(%s %s %s)' % (comb, p, out)
            return out
        if isinstance(n, ast.Compare):
            if len(n.ops) == 1 and isinstance(n.ops[0], ast.Is):
                c = n.comparators[0]
                if isinstance(c, ast.Constant) and c.value is None:
                    return '(EIsNone %s)' % self.ex(n.left)
                fail('`is` is accepted against None only', n)
            rest = []
            for op, b in zip(n.ops, n.comparators):
                if type(op) not in CMP:
                    fail('unsupported comparison', n)
                rest.append('(%s, %s)' % (CMP[type(op)], self.ex(b)))
            return '(ECmp %s %s)' % (self.ex(n.left), clist(rest))
        if isinstance(n, ast.BinOp):
            if type(n.op) not in BIN:
                fail('unsupported binary operator', n)
            return '(EBin %s %s %s)' % (BIN[type(n.op)], self.ex(n.left), self.ex(n.right))
        if isinstance(n, ast.Subscript):
            if not isinstance(n.ctx, ast.Load):
                fail('unexpected store', n)
            if isinstance(n.slice, (ast.Slice, ast.Tuple)):
                fail('slice / multi-dimensional index', n)
            return '(EIndex %s %s)' % (self.ex(n.value), self.ex(n.slice))
        if isinstance(n, ast.Attribute):
            if not isinstance(n.ctx, ast.Load):
                fail('unexpected store', n)
            if n.attr in ('shape', 'T'):     # (self.ex fails on a module name: only locals / expressions have a shape)
                return '(EAttr %s %s)' % (self.ex(n.value), cstr(n.attr))
            fail('unsupported attribute', n)
        if isinstance(n, ast.Call):
            return self.call(n)
        if isinstance(n, ast.ListComp):
            it, x, body = self.comp(n)
            return '(EListComp %s %s %s)' % (cstr(x), it, body)
        if isinstance(n, ast.GeneratorExp):
            fail('generator expression outside sum(...)', n)
        fail('expression outside the accepted fragment', n)

    def comp(self, g):
        """one-clause generator / list comprehension -> (iterable, variable, body)"""
        if len(g.generators) != 1:
            fail('comprehension with several clauses', g)
        c = g.generators[0]
        if c.ifs or c.is_async:
            fail('comprehension with a condition', g)
        x = c.target.id
        if x in self.scope:
            fail('comprehension variable shadows another comprehension variable', g)
        it = self.ex(c.iter)
        self.scope.append(x)
        body = self.ex(g.elt)
        self.scope.pop()
        return it, x, body

    def int_lit(self, n, what):
        if isinstance(n, ast.Constant) and isinstance(n.value, int) and not isinstance(n.value, bool):
            return '(EInt %s)' % cz(n.value)
        fail('%s must be an integer literal' % what, n)

    def is_float_type(self, n):
        return (isinstance(n, ast.Name) and n.id == 'float' and 'float' not in self.params + self.locals) \
            or dotted(n) == 'np.float64'

    def call(self, n):
        f = n.func
        d = dotted(f)
        if any(k.arg is None for k in n.keywords):
            fail('**kwargs in a call', n)
        kw = {k.arg: k.value for k in n.keywords}
        if len(kw) != len(n.keywords):
            fail('repeated keyword', n)
        if isinstance(f, ast.Name):
            if f.id in self.params or f.id in self.locals or f.id in self.scope:
                fail('call of a local', n)
            if f.id in ('len', 'float'):
                if kw or len(n.args) != 1:
                    fail('%s with unexpected arguments' % f.id, n)
                return '(ENp %s %s)' % (cstr(f.id), clist([self.ex(n.args[0])]))
            if f.id == 'sum':
                if kw or len(n.args) != 1 or not isinstance(n.args[0], ast.GeneratorExp):
                    fail('sum is accepted on one generator expression only', n)
                it, x, body = self.comp(n.args[0])
                return '(ESumGen %s %s %s)' % (cstr(x), it, body)
            if f.id in FUNCS:
                kws = ['(%s, %s)' % (cstr(k.arg), self.ex(k.value)) for k in n.keywords]
                return '(ECall %s %s %s)' % (cstr(f.id), clist([self.ex(x) for x in n.args]), clist(kws))
            fail('call of an unknown function %r' % f.id, n)
        if d is not None and d.startswith('np.'):
            name = d[3:]
            if name == 'unique':
                if len(n.args) != 1 or set(kw) - {'return_inverse'}:
                    fail('np.unique is accepted as np.unique(x[, return_inverse=True]) only', n)
                if 'return_inverse' in kw:
                    v = kw['return_inverse']
                    if not (isinstance(v, ast.Constant) and v.value is True):
                        fail('return_inverse must be the literal True', n)
                    return '(ENp "np.unique_inverse" %s)' % clist([self.ex(n.args[0])])
                return '(ENp "np.unique" %s)' % clist([self.ex(n.args[0])])
            if name == 'sum':
                if len(n.args) != 1 or set(kw) - {'axis'}:
                    fail('np.sum is accepted as np.sum(x[, axis=k]) only', n)
                if 'axis' in kw:
                    return '(ENp "np.sum_axis" %s)' % clist([self.ex(n.args[0]), self.int_lit(kw['axis'], 'axis')])
                return '(ENp "np.sum" %s)' % clist([self.ex(n.args[0])])
            if name == 'array':
                if len(n.args) != 1 or set(kw) != {'dtype'} or not isinstance(n.args[0], ast.ListComp) \
                        or not (isinstance(kw['dtype'], ast.Constant) and kw['dtype'].value == 'int'):
                    fail('np.array is accepted as np.array(<list comprehension>, dtype="int") only', n)
                return '(ENp "np.array_int" %s)' % clist([self.ex(n.args[0])])
            if name in NP:
                if kw or len(n.args) != NP[name]:
                    fail('np.%s with unexpected arguments' % name, n)
                return '(ENp %s %s)' % (cstr('np.' + name), clist([self.ex(x) for x in n.args]))
            fail('unsupported NumPy function %s' % d, n)
        if d == 'scipy.special.comb':
            if len(n.args) != 2 or set(kw) - {'exact'}:
                fail('scipy.special.comb is accepted as comb(n, 2[, exact=1]) only', n)
            k = self.int_lit(n.args[1], 'k of comb')
            if 'exact' in kw:
                v = kw['exact']
                if not (isinstance(v, ast.Constant) and (v.value is True or (type(v.value) is int and v.value == 1))):
                    fail('exact must be the literal 1 / True', n)
                return '(ENp "comb_exact" %s)' % clist([self.ex(n.args[0]), k])
            return '(ENp "comb_float" %s)' % clist([self.ex(n.args[0]), k])
        if d is not None and d.split('.')[0] in ('scipy', 'util', 'np'):
            fail('unsupported library call %s' % d, n)
        if isinstance(f, ast.Attribute):
            # scipy.sparse.coo_matrix((data, (rows, cols)), shape=(R, C), dtype=np.int64).toarray()
            if f.attr == 'toarray' and isinstance(f.value, ast.Call) and dotted(f.value.func) == 'scipy.sparse.coo_matrix':
                if n.args or kw:
                    fail('toarray with arguments', n)
                c = f.value
                ckw = {k.arg: k.value for k in c.keywords}
                if any(k.arg is None for k in c.keywords) or len(ckw) != len(c.keywords) or set(ckw) != {'shape', 'dtype'} \
                        or len(c.args) != 1:
                    fail('coo_matrix is accepted as coo_matrix((data, (rows, cols)), shape=(R, C), dtype=np.int64) only', n)
                a = c.args[0]
                if not (isinstance(a, ast.Tuple) and len(a.elts) == 2 and isinstance(a.elts[1], ast.Tuple) and len(a.elts[1].elts) == 2):
                    fail('coo_matrix: first argument is not (data, (rows, cols))', n)
                sh = ckw['shape']
                if not (isinstance(sh, ast.Tuple) and len(sh.elts) == 2):
                    fail('coo_matrix: shape is not a pair', n)
                if dotted(ckw['dtype']) != 'np.int64':
                    fail('coo_matrix: dtype is not np.int64', n)
                return '(ENp "coo_toarray_int64" %s)' % clist(
                    [self.ex(a.elts[0]), self.ex(a.elts[1].elts[0]), self.ex(a.elts[1].elts[1]), self.ex(sh.elts[0]), self.ex(sh.elts[1])])
            if f.attr == 'sum':
                if n.args or set(kw) - {'axis'}:
                    fail('.sum is accepted as .sum([axis=k]) only', n)
                if 'axis' in kw:
                    return '(EMeth %s "sum_axis" %s)' % (self.ex(f.value), clist([self.int_lit(kw['axis'], 'axis')]))
                return '(EMeth %s "sum" [])' % self.ex(f.value)
            if f.attr == 'flatten':
                if n.args or kw:
                    fail('flatten with arguments', n)
                return '(EMeth %s "flatten" [])' % self.ex(f.value)
            if f.attr == 'astype':
                if not kw and len(n.args) == 1 and dotted(n.args[0]) == 'np.int32':
                    return '(EMeth %s "astype_int32" [])' % self.ex(f.value)
                if kw or len(n.args) != 1 or not self.is_float_type(n.args[0]):
                    fail('astype is accepted with float / np.float64 / np.int32 only', n)
                return '(EMeth %s "astype_float" [])' % self.ex(f.value)
            fail('unsupported method %s' % f.attr, n)
        fail('unsupported call', n)

    # ---- statements ----
    def block(self, stmts, ind):
        out = []
        for i, s in enumerate(stmts):
            out.extend(self.stmt(s, ind))
            if isinstance(s, ast.Return) and i + 1 < len(stmts):
                fail('statement after return', stmts[i + 1])
        return out

    def fmt_block(self, items, ind):
        pad = '\n' + '  ' * (ind + 1)
        if not items:
            return '[]'
        return '[' + pad + (';' + pad).join(items) + ']'

    def stmt(self, s, ind):
        if isinstance(s, ast.Pass):
            return ['SPass']
        if isinstance(s, ast.Expr):
            v = s.value
            if isinstance(v, ast.Call) and isinstance(v.func, ast.Name) and v.func.id in FUNCS:
                return ['SExpr %s' % self.ex(v)]
            fail('expression statement that is not a call of a known function', s)
        if isinstance(s, ast.Assign):
            if len(s.targets) != 1:
                fail('chained assignment', s)
            t = s.targets[0]
            if isinstance(t, ast.Name):
                return ['SAssign %s %s' % (cstr(t.id), self.ex(s.value))]
            if isinstance(t, ast.Tuple) and all(isinstance(e, ast.Name) for e in t.elts):
                names = [e.id for e in t.elts]
                if len(set(names)) != len(names):
                    fail('repeated unpacking target', s)
                return ['STupAssign %s %s' % (clist([cstr(x) for x in names]), self.ex(s.value))]
            fail('unsupported assignment target', s)
        if isinstance(s, ast.AugAssign):
            if not isinstance(s.target, ast.Name) or type(s.op) not in BIN:
                fail('unsupported augmented assignment', s)
            return ['SAug %s %s %s' % (cstr(s.target.id), BIN[type(s.op)], self.ex(s.value))]
        if isinstance(s, ast.If):
            a = self.block(s.body, ind + 1)
            b = self.block(s.orelse, ind + 1)
            return ['SIf %s %s %s' % (self.ex(s.test), self.fmt_block(a, ind + 1), self.fmt_block(b, ind + 1))]
        if isinstance(s, ast.For):
            if s.orelse:
                fail('for ... else', s)
            if not isinstance(s.target, ast.Name):
                fail('unsupported loop target', s)
            body = self.block(s.body, ind + 1)
            return ['SFor %s %s %s' % (cstr(s.target.id), self.ex(s.iter), self.fmt_block(body, ind + 1))]
        if isinstance(s, ast.Return):
            return ['SReturn %s' % ('ENone' if s.value is None else self.ex(s.value))]
        fail('statement outside the accepted fragment', s)

    def coq_params(self):
        ps = []
        for p, d in zip(self.params, self.defaults):
            if d is None:
                ps.append('(%s, None)' % cstr(p))
            else:
                if not (isinstance(d, ast.Constant) and (d.value is None or isinstance(d.value, (bool, int, float)))):
                    fail('%s: default of %s is not a literal' % (self.name, p), d)
                ps.append('(%s, Some %s)' % (cstr(p), self.ex(d)))
        return clist(ps)

    def coq(self):
        body = self.block(self.body, 1)
        return ('{| f_params := %s;\n     f_locals := %s;\n     f_body := %s |}'
                % (self.coq_params(), clist([cstr(x) for x in self.locals]), self.fmt_block(body, 2)))


# ----------------------------------------------------------------------------- the summation limits of the AMI
AMI = '_adjusted_mutual_info_score'
BENIGN_CALLS = {'float', 'len', 'max', 'min'} | set(FUNCS)


def names_read(n):
    return {m.id for m in ast.walk(n) if isinstance(m, ast.Name) and isinstance(m.ctx, ast.Load)}


def ami_bounds(node):
    """The backward slice of _adjusted_mutual_info_score that computes the limits of its summation
         for i in range(R): for j in range(C): for nij in range(start[i, j], end[i, j]): ...
    as a function returning (start, end, R, C): the statements before the loop nest on which these four names depend
    (and every early return).  The statements left out must be assignments to other names whose right-hand sides only call
    NumPy / scipy.special / the translated functions (none of which writes into an argument), or item stores into a name
    bound to a fresh np.arange(...); nothing in the loop nest may assign the four names or the loop variables."""
    body = list(node.body)
    if body and isinstance(body[0], ast.Expr) and isinstance(body[0].value, ast.Constant) and isinstance(body[0].value.value, str):
        body = body[1:]
    fors = [s for s in body if isinstance(s, ast.For)]
    if len(fors) != 1:
        fail('%s: expected exactly one top-level loop' % AMI, node)
    li = fors[0]
    idx = body.index(li)

    def rng(f, nargs):
        if f.orelse or not isinstance(f.target, ast.Name) or not (isinstance(f.iter, ast.Call) and isinstance(f.iter.func, ast.Name)
                                                                and f.iter.func.id == 'range' and not f.iter.keywords
                                                                and len(f.iter.args) == nargs):
            fail('%s: loop is not `for <name> in range(...)` with %d argument(s)' % (AMI, nargs), f)
        return f.target.id, f.iter.args
    i, (Rn,) = rng(li, 1)
    if len(li.body) != 1 or not isinstance(li.body[0], ast.For):
        fail('%s: the outer loop does not consist of one inner loop' % AMI, li)
    lj = li.body[0]
    j, (Cn,) = rng(lj, 1)
    if len(lj.body) != 1 or not isinstance(lj.body[0], ast.For):
        fail('%s: the middle loop does not consist of one inner loop' % AMI, lj)
    lk = lj.body[0]
    k, (lo, hi) = rng(lk, 2)

    def sub_ij(e):
        if isinstance(e, ast.Subscript) and isinstance(e.value, ast.Name) and isinstance(e.slice, ast.Tuple) \
                and len(e.slice.elts) == 2 and all(isinstance(x, ast.Name) for x in e.slice.elts) \
                and [x.id for x in e.slice.elts] == [i, j]:
            return e.value.id
        fail('%s: a summation limit is not <name>[%s, %s]' % (AMI, i, j), e)
    S, E = sub_ij(lo), sub_ij(hi)
    if not (isinstance(Rn, ast.Name) and isinstance(Cn, ast.Name)):
        fail('%s: range bounds of the outer loops are not names' % AMI, li)
    R, C = Rn.id, Cn.id
    if len({i, j, k, S, E, R, C}) != 7:
        fail('%s: loop variables / limits are not distinct names' % AMI, li)
    stored = [m for m in ast.walk(li) if isinstance(m, ast.Name) and isinstance(m.ctx, (ast.Store, ast.Del))]
    for m in stored:
        if m.id in (S, E, R, C) or (m.id in (i, j, k) and m not in (li.target, lj.target, lk.target)):
            fail('%s: the loop nest assigns %s' % (AMI, m.id), m)
    for m in ast.walk(li):
        if isinstance(m, (ast.Break, ast.Continue, ast.Return, ast.While, ast.Try, ast.With, ast.Raise)):
            fail('%s: control transfer inside the loop nest' % AMI, m)
        if isinstance(m, ast.Subscript) and isinstance(m.ctx, (ast.Store, ast.Del)):
            fail('%s: item store inside the loop nest' % AMI, m)
    needed = {S, E, R, C}
    keep = []
    for s in reversed(body[:idx]):
        if isinstance(s, ast.If):
            if s.orelse or not all(isinstance(t, ast.Return) for t in s.body):
                fail('%s: an `if` before the loop nest is not an early return' % AMI, s)
            keep.append(s)
            needed |= names_read(s)
            continue
        if isinstance(s, ast.Assign) and len(s.targets) == 1:
            t = s.targets[0]
            tn = None
            if isinstance(t, ast.Name):
                tn = [t.id]
            elif isinstance(t, ast.Tuple) and all(isinstance(e, ast.Name) for e in t.elts):
                tn = [e.id for e in t.elts]
            if tn is not None:
                if set(tn) & needed:
                    keep.append(s)
                    needed = (needed - set(tn)) | names_read(s.value)
                else:
                    for c in ast.walk(s.value):
                        if isinstance(c, ast.Call):
                            d = dotted(c.func)
                            if not (d is not None and (d in BENIGN_CALLS or d.startswith('np.') or d.startswith('scipy.special.'))):
                                fail('%s: a statement outside the slice calls something that may write into its arguments' % AMI, s)
                continue
            if isinstance(t, ast.Subscript) and isinstance(t.value, ast.Name):
                x = t.value.id
                if x in needed:
                    fail('%s: item store into %s, on which the summation limits depend' % (AMI, x), s)
                binds = [a for a in ast.walk(node) if isinstance(a, ast.Assign)
                         and any(isinstance(m, ast.Name) and m.id == x for tt in a.targets for m in ast.walk(tt) if tt is not t)]
                binds = [a for a in binds if not (len(a.targets) == 1 and a.targets[0] is t)]
                if not binds or not all(len(a.targets) == 1 and isinstance(a.targets[0], ast.Name) and isinstance(a.value, ast.Call)
                                        and dotted(a.value.func) == 'np.arange' for a in binds):
                    fail('%s: item store into %s, which is not bound to a fresh np.arange(...) only' % (AMI, x), s)
                continue
        fail('%s: statement before the loop nest outside the accepted shapes' % AMI, s)
    keep.reverse()
    ret = ast.Return(value=ast.Tuple(elts=[ast.Name(id=x, ctx=ast.Load()) for x in (S, E, R, C)], ctx=ast.Load()))
    new = ast.FunctionDef(name=AMI, args=node.args, body=keep + [ret], decorator_list=[], returns=None)
    ast.copy_location(ret, li)
    ast.fix_missing_locations(new)
    return Fn(new), (i, R, j, C, k, S, E)


def generate_segment():
    tree = module('segment')
    check_module(tree)
    fns = {f: Fn(top_func(tree, f)) for f in FUNCS}
    t = HEADER
    t += '(* numeric cores of mir_eval/segment.py as programs of Model/SegExp.v *)\n'
    t += 'From Coq Require Import String.\nFrom Coq Require Import List ZArith QArith.\n'
    t += 'From ME Require Import Model.Prelude Model.SegExp.\nImport ListNotations.\nLocal Open Scope string_scope.\n'
    for f in FUNCS:
        t += '(* segment.%s *)\nDefinition gen_%s : fdef :=\n  %s.\n' % (f, f.lstrip('_'), fns[f].coq())
    bnd, shape = ami_bounds(top_func(tree, AMI))
    t += '(* segment.%s: the slice that computes the limits of its summation loops\n' % AMI
    t += '   for %s in range(%s): for %s in range(%s): for %s in range(%s[%s, %s], %s[%s, %s]);  returns (%s, %s, %s, %s) *)\n' % (
        shape[0], shape[1], shape[2], shape[3], shape[4], shape[5], shape[0], shape[2], shape[6], shape[0], shape[2],
        shape[5], shape[6], shape[1], shape[3])
    t += 'Definition gen_ami_bounds : fdef :=\n  %s.\n' % bnd.coq()
    t += '(* every function with its signature source *)\n'
    t += 'Definition core_funs : list (string * fdef) :=\n  %s.\n' % clist(['(%s, gen_%s)' % (cstr(f), f.lstrip('_')) for f in FUNCS])
    return {'CoreFuncsGen.v': t}


for _m in SUBMODULES:
    OUTPUTS = OUTPUTS + list(importlib.import_module('translator.' + _m).OUTPUTS)


def generate():
    files = dict(generate_segment())
    for m in SUBMODULES:
        sub = importlib.import_module('translator.' + m).generate()
        for k, v in sub.items():
            if k in files:
                raise TranslationError('corefuncs: two sub-translators write %s' % k)
            files[k] = v
    return files
