#!/bin/bash
# Exercise checks against a seeded change WITHOUT touching /repo or /verif's build:
#   tools_mutant.sh <patch.diff> <Cxx> [<Cyy> ...]
# A scratch copy of /verif (with its compiled .vo files) and a scratch worktree of /repo are made under /tmp, the patch is
# applied there, the checks run with VERIF_REPO pointing at it, and both copies are removed.
set -u
PATCH=$(readlink -f "$1"); shift
TAG=mut_$$
WT=/tmp/$TAG.repo; VF=/tmp/$TAG.verif
git -C /repo worktree add -q --detach "$WT" HEAD || exit 3
( cd "$WT" && git apply "$PATCH" ) || { echo "PATCH DOES NOT APPLY"; git -C /repo worktree remove --force "$WT"; exit 3; }
mkdir -p "$VF"
rsync -a --exclude build/corr --exclude build/replay --exclude .git /verif/ "$VF"/
mkdir -p "$VF/build/corr" "$VF/build/replay" "$VF/build/logs"
rc=0
for P in "$@"; do
  ( cd "$VF" && VERIF_REPO="$WT" timeout 3000 ./check "$P" --tier quick 2>&1 | grep -E "^(VIOLATION|OK|KNOWN-FINDING|BROKEN)" ) 
  for f in "$VF"/build/replay/${P}_*.json; do [ -f "$f" ] && { echo "--- replay $f"; head -c 1500 "$f"; echo; }; done
done
git -C /repo worktree remove --force "$WT"
rm -rf "$VF"
