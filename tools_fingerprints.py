#!/venv/bin/python
"""Record the normalised-AST fingerprints of every Python function mirrored by a correspondence unit
(run after the units were validated at the thorough tier; DESIGN.md section 3.3)."""
import importlib, json, os, sys
HERE = os.path.dirname(os.path.abspath(__file__))
sys.path.insert(0, HERE); sys.path.insert(0, '/repo')
from lib import core
fp = {}
for fn in sorted(os.listdir(os.path.join(HERE, 'harness', 'units'))):
    if fn.endswith('.py') and fn != '__init__.py':
        u = importlib.import_module('harness.units.' + fn[:-3]).UNIT
        for rp, f in u.mirrors:
            h = core.fingerprint(rp, f)
            if h in ('missing',) or h.startswith('unreadable'):
                print('WARNING: %s::%s is %s' % (rp, f, h))
            fp['%s::%s' % (rp, f)] = h
json.dump(fp, open(os.path.join(HERE, 'fingerprints.json'), 'w'), indent=1, sort_keys=True)
print(len(fp), 'fingerprints recorded')
