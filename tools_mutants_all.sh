#!/bin/bash
# Evaluate every seeded change against the check of its property (isolated copies; see tools_mutant.sh).
#   tools_mutants_all.sh [pattern]      results -> build/mutants/<id>.txt
cd "$(dirname "$0")"
mkdir -p build/mutants
ls -d seeded/${1:-*}/ | while read d; do
  id=$(basename "$d"); prop=${id%%-*}
  echo "$id $prop"
done | xargs -P 3 -L 1 bash -c './tools_mutant.sh seeded/$0/patch.diff $1 > build/mutants/$0.txt 2>&1; echo "$0: $(grep -m1 -E "^(VIOLATION|OK|PATCH)" build/mutants/$0.txt | sed "s/replay=.*verif\/build/replay=.../")"'
