#!/bin/bash
# Build the whole Coq development from files on disk (offline). Full .vo build, no -vos.
set -e
cd "$(dirname "$0")"
export PYTHONHASHSEED=0
mkdir -p build/corr build/replay build/logs evidence coq/Gen
/venv/bin/python -m lib.regen
cd coq
{ echo "-Q . ME"; find Model Gen Proofs Properties -name '*.v' | LC_ALL=C sort; } > _CoqProject
coq_makefile -f _CoqProject -o Makefile > /dev/null
timeout 3000 make -k -j16 2>&1 | tail -40 || true
