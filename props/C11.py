"""C11 — Chord comparison rules form the documented lattice."""
import time
from lib import core

ID = 'C11'
UNITS = ['chord_cmp', 'chord_label']
TRANSLATORS = ['chordre', 'tables', 'chordrules', 'chordparse']
NOT_COVERED = 'vectorised evaluation over label lists longer than 1 is tied by a separate list-level sample in the oracle, not by the per-pair unit'
ASSUMPTIONS = ['NumPy elementwise equality / any / all / boolean-mask assignment as modelled']


def _C():
    from mir_eval import chord
    return chord


def oracle_at(unit, case, impl):
    from harness.oracles import chord as O
    if unit == 'chord_cmp':
        return O.check_pair(_C(), case[0], case[1], others=['N', 'C:maj', 'G:min7/b7'])
    return None


def diagnose(b):
    return None


def oracle_search(rng, budget, tier):
    from harness.oracles import chord as O
    from harness.units.chord_cmp import UNIT, closure
    C = _C()
    t0 = time.time()
    n = 0
    cl = closure('quick')
    cases = core.corpus_cases(UNIT) + UNIT.exhaustive(tier) + UNIT.gen(rng, 3000 if tier == 'quick' else 30000)
    for c in cases:
        if time.time() - t0 > budget:
            break
        n += 1
        f = O.check_pair(C, c[0], c[1], others=[rng.choice(cl)])
        if f:
            return [f], n
    # list-level: the vectorised call agrees with the per-pair calls
    import numpy as np
    for _ in range(20):
        refs = [rng.choice(cl) for _ in range(12)]
        ests = [rng.choice(cl) for _ in range(12)]
        for name in O.RULES:
            n += 1
            try:
                whole = [float(x) for x in getattr(C, name)(refs, ests)]
                single = [float(getattr(C, name)([r], [e])[0]) for r, e in zip(refs, ests)]
            except Exception:  # noqa
                continue
            if whole != single:
                return [O.finding('chord.' + name, 'list call equals per-pair calls', [refs, ests], [whole, single], '')], n
    return [], n


def known_match(f, known):
    return None


MANIFEST = {
    'text': 'Theorems for all encodings satisfying the post-condition of encode (proved to hold for every encodable label): each rule returns '
            '1/0/-1, ignoring depends on the reference only, self-comparison is never 0, the full implication lattice, tetrads=1 => mirex<>0, '
            'and the vocabularies of majmin/sevenths/*_inv and X. The rule model reads QUALITIES rows from the translated table and is tied to '
            'chord.py by a correspondence over label pairs for all 12 functions, compared inside Coq.',
    'design_ref': 'DESIGN.md section 6, C11',
    'level_note': 'Trusted: Coq kernel + vm_compute; translator for the tables and regex; correspondence harness; NumPy elementwise semantics as modelled.',
    'technique': 'Coq proof (structural, all encodings) on a Gallina model of the 12 comparison rules; model/code correspondence by vm_compute',
}
