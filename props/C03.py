"""C03 — evaluate() is exactly the documented bundle of the individual metrics."""
import time
from lib import core

ID = 'C03'
UNITS = ['chord_segmentation', 'chord_evaluate', 'hier_measures', 'melody_resample', 'beat_q']
TRANSLATORS = ['evaluate', 'wrapfuncs', 'wrapfuncs2']
NOT_COVERED = ('that Python creates a fresh dict for **kwargs on every call (language semantics); what the metric functions compute '
               '(their denotation is a Section variable of the soundness theorem); separation.evaluate is interpreted on one small input only')
ASSUMPTIONS = ['util.filter_kwargs / has_kwargs behave as modelled: pass everything to a callee with **kwargs, else restrict to co_varnames[:co_argcount]']
ORACLE_BUDGET = {'quick': 25, 'thorough': 240}


def _search(rng, budget, modules, per_module):
    import warnings
    from harness import gen_inputs as G
    from harness.oracles import evaluate as E
    t0 = time.time()
    n = 0
    found = []
    for rnd in range(per_module):
        for m in modules:
            if time.time() - t0 > budget:
                return found, n
            if m == 'separation' and rnd > 0:
                continue
            args = G.TASKS[m](rng)
            for kw in E.PROBES[m]:
                n += 1
                f = E.check(m, args, kw)
                if f:
                    found.append(f)
                    return found, n
    return found, n


def diagnose(b):
    """A bundle / arity theorem (or the translator) no longer checks: search the modules named in the error first."""
    import random
    import re
    from harness.oracles import evaluate as E
    txt = str(b.get('detail'))
    mods = [m for m in E.MODULES if re.search(r'C03_%s_|%s_prog|%s_spec|%s\.evaluate' % (m, m, m, m), txt)] or E.MODULES
    found, n = _search(random.Random(core.seed() + 7), 60, mods, 40)
    return found


def oracle_search(rng, budget, tier):
    from harness.oracles import evaluate as E
    return _search(rng, budget, E.MODULES, 6 if tier == 'quick' else 60)


def known_match(f, known):
    return None


MANIFEST = {
    'text': 'Per task, a kernel-checked computation shows that the symbolic normal form of evaluate() as translated from the source on this '
            'run (every path: score key -> metric callee, pre-processed arguments, exactly the keyword overrides that reach the callee) equals the '
            'documented bundle written by hand in Model/EvalSpec.v, and that every return path of every callee has the arity of the target that '
            'receives it (scalars under single keys). A soundness theorem relates the normal form to a concrete semantics of the keyword plumbing '
            '(Proofs/EvalSound.v when present). The translator is fail-closed: syntax outside the fragment withdraws the model. The documented '
            'pre-processing steps themselves (beat trimming, span adjustment + label merging + merge_chord_intervals, hierarchy re-alignment, '
            'to_cent_voicing) are tied by five correspondence units, two of which (chord_evaluate, hier_measures EV cases) run evaluate() end to end.',
    'design_ref': 'DESIGN.md section 6, C03',
    'level_note': 'Trusted: Coq kernel + vm_compute; the translator (Python ast); the hand-written documented bundles; filter_kwargs semantics as '
                  'modelled. The oracle that interprets the documented bundle against the real functions is used only to find failing inputs.',
    'technique': 'Coq: verified-by-computation equality between the symbolic execution of the translated evaluate() bodies and the documented bundles; arity sweep over translated return statements',
}
