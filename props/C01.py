"""C01 — Proportion-type scores are finite and lie in [0, 1]."""
from lib import core, propgen
from harness.oracles import all as ALL

ID = 'C01'
UNITS = ['event_metrics', 'transcription_scores', 'multipitch_metrics', 'melody_metrics', 'seg_cluster_q', 'hier_gauc', 'weighted_accuracy', 'key_score', 'pattern_scores', 'alignment_scores', 'tempo_detection', 'beat_q', 'beat_ig', 'beat_ig_num']
TRANSLATORS = ['scalarfuncs', 'vecfuncs', 'beatfuncs', 'patternfuncs', 'corefuncs']
NOT_COVERED = 'Partial: AMI <= 1 and the alignment "perceptual" metric are not theorems; they are covered by the oracle only. Information gain in [0, 1], MI >= 0 and the NMI / NCE / V-measure ranges are Reals theorems on the exact histogram / contingency table, tied numerically inside Coq (beat_ig_num, seg_entropy_num).'
ASSUMPTIONS = ['exact-arithmetic lattices for the correspondence (DESIGN.md section 2.1); NumPy/SciPy primitives as modelled per module']

oracle_search = propgen.budgeted([ALL.for_property(ID)])


oracle_at = propgen.point_oracle(ID)      # the property's point checks at and around the mismatching input (harness/oracles/at_point.py)


def diagnose(b):
    import random
    return ALL.for_property(ID)(random.Random(core.seed() + 17), 300)[:2]


def known_match(f, known):
    return ALL.is_known(f)


REFUTED = []

MANIFEST = {
    'text': 'One bound theorem per modelled metric (beat/onset/boundary P/R/F and deviation, transcription x4 and AOR <= 1, multipitch errors and accuracy, the five melody measures, pairwise/Rand/ARI, T-/L-measure, chord weighted accuracy, key, pattern est/occ/3-layer/first-n, tempo, alignment), from hits <= min(|ref|,|est|) of the verified maximum matching and f_measure_range; refutations for pairwise (NaN) and standard_FPR (> 1).',
    'design_ref': 'DESIGN.md section 6, C01',
    'level_note': 'Trusted: Coq kernel + vm_compute; correspondence harness per modelled metric; NumPy/SciPy primitives as modelled. ' + 'Partial: the information-gain entropy/log2 step, AMI <= 1 and the alignment "perceptual" metric are not theorems; they are covered by the oracle only.',
    'technique': 'Coq proof on Gallina models of the task metrics (maximum-matching size lemmas, exact rational arithmetic); model/code correspondence by vm_compute',
}
