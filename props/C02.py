"""C02 — A perfect estimate receives the perfect score in every task."""
from lib import core, propgen
from harness.oracles import all as ALL

ID = 'C02'
UNITS = ['event_metrics', 'transcription_scores', 'melody_metrics', 'seg_cluster_q', 'hier_gauc', 'chord_cmp', 'weighted_accuracy', 'key_score', 'pattern_scores', 'alignment_scores', 'tempo_detection', 'beat_q', 'beat_ig', 'multipitch_metrics', 'match_events', 'melody_resample', 'chord_evaluate', 'chord_segmentation', 'hier_measures', 'note_matching', 'multipitch_resample', 'beat_ig_num']
TRANSLATORS = ['framefuncs']
NOT_COVERED = 'Partial: AMI of identical annotations is covered by the numeric unit and the oracle only (no theorem).'
ASSUMPTIONS = ['exact-arithmetic lattices for the correspondence (DESIGN.md section 2.1); NumPy/SciPy primitives as modelled per module']

oracle_search = propgen.budgeted([ALL.for_property(ID)])


oracle_at = propgen.point_oracle(ID)      # the property's point checks at and around the mismatching input (harness/oracles/at_point.py)


def diagnose(b):
    import random
    return ALL.for_property(ID)(random.Random(core.seed() + 17), 300)[:2]


def known_match(f, known):
    return ALL.is_known(f)


REFUTED = []

MANIFEST = {
    'text': 'metric(x, x) = best theorems under explicit non-degeneracy predicates: the diagonal is feasible so the verified maximum matching has full size (beat, onset, boundaries, notes), melody measures, pairwise/Rand/ARI (1 or NaN), gauc, chord rules never 0 on a label against itself and weighted accuracy 1, key, pattern, tempo, alignment; four refutations with replayed witnesses (AOR, velocity, melody base frequency, pairwise NaN).',
    'design_ref': 'DESIGN.md section 6, C02',
    'level_note': 'Trusted: Coq kernel + vm_compute; correspondence harness per modelled metric; NumPy/SciPy primitives as modelled. ' + 'Partial: the information-gain entropy step and the entropic segment scores are covered by the oracle only.',
    'technique': 'Coq proof on Gallina models of the task metrics (maximum-matching size lemmas, exact rational arithmetic); model/code correspondence by vm_compute',
}
