"""C17 — Hierarchy T-/L-measures equal the triplet-ranking definition."""
from lib import core, propgen

ID = 'C17'
UNITS = ['hier_inversions', 'hier_gauc', 'hier_measures', 'index_labels']
TRANSLATORS = ['wrapfuncs', 'wrapfuncs2', 'hierfuncs']
NOT_COVERED = ('hierarchy.evaluate / _align_intervals (they go through adjust_intervals, C13); frame quantisation off dyadic frame sizes takes the '
               'frame indices from the implementation; uint8 level storage (<= 255 levels)')
ASSUMPTIONS = ['scipy sparse slicing / np.unique(return_counts) / searchsorted as modelled']


def _H():
    from mir_eval import hierarchy
    return hierarchy


def sweep(rng, n):
    from harness.oracles import hierarchy as O
    return O.search(_H(), rng, budget=max(3, n // 12))


oracle_search = propgen.budgeted([sweep])


oracle_at = propgen.chained(propgen.point_oracle(ID), propgen.definitional_oracle_at(['hier_inversions', 'hier_gauc', 'hier_measures'], 'equals the triplet-ranking definition'))


def diagnose(b):
    import random
    from harness.oracles import hierarchy as O
    return O.search(_H(), random.Random(core.seed() + 9), budget=60)[:1]


def known_match(f, known):
    return None


MANIFEST = {
    'text': 'Theorems: the _count_inversions merge loop equals the pair count; _compare_frame_rankings equals the brute-force normalizer/inversion '
            'counts (reduced and full); _gauc equals the mean over counted query frames of 1 - inv/norm over the window minus the query, lies in '
            '[0,1] and never raises on equal shapes; _lca/_meet are the deepest common segment / label level; tmeasure/lmeasure equal the '
            'definition end to end, with an exact characterisation of rejected parameters. Tied to hierarchy.py by three correspondence units.',
    'design_ref': 'DESIGN.md section 6, C17',
    'level_note': 'Trusted: Coq kernel + vm_compute; correspondence harness; scipy/NumPy primitives as modelled; dyadic frame sizes for exact quantisation.',
    'technique': 'Coq proof (loop invariant for the inversion merge, declarative pair counts) on a Gallina model of hierarchy.py; model/code correspondence by vm_compute',
}
