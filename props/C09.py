"""C09 — Pitch spelling, joint transposition and octave are handled as documented."""
from lib import core, propgen

ID = 'C09'
UNITS = ['chord_cmp', 'chord_label', 'key_score', 'chord_segmentation', 'chord_evaluate', 'melody_metrics', 'melody_resample', 'multipitch_metrics', 'note_matching']
TRANSLATORS = ['chordre', 'tables', 'scalarfuncs', 'wrapfuncs', 'chordparse', 'framefuncs']
NOT_COVERED = ('frequency scaling by factors other than whole octaves rests on log2 algebra outside the exact model (the Hz->cents/MIDI '
               'conversion sits before the modelled metric functions: the theorems are stated on cents / MIDI numbers, i.e. for additive shifts)')
ASSUMPTIONS = ['NumPy elementwise semantics as modelled in ChordCmp; key strings restricted to the finite domain stated in the key theorems']


def sweep_chords(rng, n):
    import re
    from mir_eval import chord as C
    from harness.oracles import key_chordscore as O
    out = []
    roots = [l + a for l in 'ABCDEFG' for a in ('', '#', 'b', '##', 'bb')]
    tails = ['', ':maj', ':min', ':7', ':maj7', ':min7', ':dim', ':aug', ':sus4', ':maj/3', ':min/b3', ':7/b7', ':maj(9)', ':min7(*5)',
             ':(1,5)', ':hdim7', ':maj6', ':9', ':maj/5', ':min(*b3)', ':1', ':5', '/2']
    for rt in rng.sample(roots, 6):
        f = O.check_pitch_class(C, rt)
        if f:
            out.append(f)
    for _ in range(n):
        r = rng.choice(['N', 'X'] + [rng.choice(roots) + rng.choice(tails) for _ in range(8)])
        e = rng.choice(['N', 'X'] + [rng.choice(roots) + rng.choice(tails) for _ in range(8)])
        if rng.random() < 0.4 and r not in ('N', 'X') and e not in ('N', 'X'):
            e = O.ROOT_RE.match(r).group(1) + O.ROOT_RE.match(r).group(2) + O.ROOT_RE.match(e).group(3)
        f = O.check_transpose_pair(C, r, e, rng.randrange(12), rng.randrange(6), rng.randrange(6))
        if f:
            out.append(f)
            break
    return out


def sweep_keys(rng, n):
    from mir_eval import key as K
    from harness.oracles import key_chordscore as O
    out = []
    ts = O.key_tonics(K)
    for _ in range(max(5, n // 8)):
        r = (rng.choice(ts), rng.choice(['major', 'minor', 'other']))
        e = (rng.choice(ts), rng.choice(['major', 'minor', 'other']))
        f = O.check_key_pair(K, r, e)
        if f:
            out.append(f)
            break
    return out


oracle_search = propgen.budgeted([sweep_chords, sweep_keys])


oracle_at = propgen.point_oracle(ID)      # the property's point checks at and around the mismatching input (harness/oracles/at_point.py)


def diagnose(b):
    import random
    r = random.Random(core.seed() + 11)
    return (sweep_chords(r, 400) or sweep_keys(r, 400))[:1]


def known_match(f, known):
    return None


MANIFEST = {
    'text': 'Theorems: joint transposition leaves each of the 12 comparison rules unchanged for all well-formed encodings (structural lemma on '
            'the rotated chroma dot product); a root enters the encoding only through letter + sharps - flats mod 12 (all accidental strings); '
            'labels with enharmonic / jointly transposed roots have identical comparisons; key scores are invariant under joint transposition and '
            'respelling over the whole finite key domain (by computation over the translated table). Models tied by correspondence units.',
    'design_ref': 'DESIGN.md section 6, C09',
    'level_note': 'Trusted: Coq kernel + vm_compute; translator for tables/regex; correspondence harness. Frequency-domain clauses (melody, '
                  'multipitch, transcription) are proved on cents/MIDI values where modelled; the log2 conversion itself is outside the model.',
    'technique': 'Coq proof on Gallina models of the chord encoder / comparison rules / key scoring; finite key domain by kernel computation; model/code correspondence by vm_compute',
}
