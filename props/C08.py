"""C08 — Scores ignore time origin, item order and segment label names."""
from lib import core, propgen
from harness.oracles import all as ALL

ID = 'C08'
UNITS = ['event_metrics', 'transcription_scores', 'seg_cluster_q', 'index_labels', 'multipitch_metrics', 'pattern_scores', 'tempo_detection', 'alignment_scores', 'beat_q', 'beat_ig', 'seg_entropy_num', 'chord_evaluate', 'hier_measures', 'note_matching', 'match_events']
TRANSLATORS = ['patternfuncs', 'corefuncs']
NOT_COVERED = 'Rational shifts on the exact lattice (float rounding of shifted times is outside the model); MI / AMI under relabelling are Reals theorems tied numerically inside Coq (seg_entropy_num).'
ASSUMPTIONS = ['exact-arithmetic lattices for the correspondence (DESIGN.md section 2.1); NumPy/SciPy primitives as modelled per module']

oracle_search = propgen.budgeted([ALL.for_property(ID)])


oracle_at = propgen.point_oracle(ID)      # the property's point checks at and around the mismatching input (harness/oracles/at_point.py)


def diagnose(b):
    import random
    return ALL.for_property(ID)(random.Random(core.seed() + 17), 300)[:2]


def known_match(f, known):
    return ALL.is_known(f)


REFUTED = []

MANIFEST = {
    'text': 'Shift theorems (events, boundaries, notes, pattern onsets, MIREX PCS), permutation theorems through max_size_iso (events, notes, frames; tempo estimates; reference pattern list) and label-bijection invariance of pairwise/Rand/ARI through the induced partition; two refutations (velocity P/R/F and AOR depend on note order).',
    'design_ref': 'DESIGN.md section 6, C08',
    'level_note': 'Trusted: Coq kernel + vm_compute; correspondence harness per modelled metric; NumPy/SciPy primitives as modelled. ' + 'Rational shifts on the exact lattice; chord.evaluate shift is covered by the oracle only.',
    'technique': 'Coq proof on Gallina models of the task metrics (maximum-matching size lemmas, exact rational arithmetic); model/code correspondence by vm_compute',
}
