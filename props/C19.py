"""C19 — BSS-eval decomposition, invariances and framewise consistency."""
from lib import core, propgen
from harness.oracles import all as ALL

ID = 'C19'
UNITS = ['sep_framewise', 'sep_perm']
TRANSLATORS = ['evaluate']
NOT_COVERED = ('the numerical least-squares projection (FFT Gram matrix, solve/lstsq) is an argument of the model: decomposition-sum, scale '
               'invariance of the real _project (to 1e-6 dB), perfect estimate => SDR > 200 dB are numerical TESTS run by the oracle, not theorems; '
               'dB values are modelled as exact energy ratios without 10*log10')
ASSUMPTIONS = ['itertools.permutations enumeration order and np.argmax = first maximum, as proved for the model (perms_lex_sorted) and tied by sep_perm']


def _images_scale_fails():
    import numpy as np
    import warnings
    from mir_eval import separation as S
    rs = np.random.RandomState(0)
    ref = rs.randn(2, 1200)
    est = ref + 0.3 * rs.randn(2, 1200) + 0.2 * ref[::-1]
    with warnings.catch_warnings():
        warnings.simplefilter('ignore')
        a = S.bss_eval_images(ref, est, False)
        est2 = est.copy()
        est2[0] *= 2.0
        b = S.bss_eval_images(ref, est2, False)
    return abs(a[0][0] - b[0][0]) > 1.0


REFUTED = [
    {'theorem': 'C19_images_sdr_isr_estimate_scale_refuted', 'function': 'separation.bss_eval_images',
     'witness': 'doubling one estimated source changes image SDR/ISR by ~10 dB', 'still_fails': _images_scale_fails},
]


def sweep(rng, n):
    from harness.oracles import separation as O
    fs = O.sweep(rng, max(1, n // 20))
    return [f for f in fs if ALL.is_known(f) is None]


def targeted(rng, n):
    from harness.oracles import separation as O
    if getattr(targeted, 'done', False):       # a fixed battery: once per run
        return []
    targeted.done = True
    return [f for f in O.targeted() if ALL.is_known(f) is None]


oracle_search = propgen.budgeted([targeted, sweep])
ORACLE_BUDGET = {'quick': 30, 'thorough': 300}


oracle_at = propgen.point_oracle(ID)      # the property's point checks at and around the mismatching input (harness/oracles/at_point.py)


def diagnose(b):
    import random
    from harness.oracles import separation as O
    return ([f for f in O.targeted() if ALL.is_known(f) is None] or sweep(random.Random(core.seed() + 19), 120))[:2]


def known_match(f, known):
    return ALL.is_known(f)


MANIFEST = {
    'text': 'Theorems universally quantified over the projection: the four components sum to the padded estimate (sources and images); the '
            'permutation search enumerates exactly the permutations in itertools order and returns the first maximiser of mean SIR, follows a '
            'reordering of the estimates, and is the identity when the diagonal dominates; the framewise plan (window count, fallback, column k = '
            'f(slice k), NaN in every metric for silent windows, documented arity incl. empty input). Scale invariance is proved GIVEN two facts '
            'about the projection (partial); for image SDR/ISR it is refuted (known finding). Tied by two correspondence units; numerics are oracle tests.',
    'design_ref': 'DESIGN.md section 6, C19',
    'level_note': 'Trusted: Coq kernel + vm_compute; correspondence harness; the projection is abstract (Section argument, no axiom); NumPy/SciPy linear '
                  'algebra and FFT are outside the model.',
    'technique': 'Coq proof over an abstract projection (decomposition identity, permutation search, framewise plan); model/code correspondence by vm_compute; numerical facts tested',
}
