"""C14 — Valid annotations are always scored; malformed ones are rejected cleanly."""
from lib import core, propgen
from harness.oracles import all as ALL

ID = 'C14'
UNITS = ['validators', 'adjust_intervals', 'io_wrappers', 'event_metrics', 'melody_metrics', 'melody_resample', 'transcription_scores', 'multipitch_metrics', 'seg_cluster_q', 'hier_measures', 'chord_evaluate', 'key_score', 'tempo_detection', 'alignment_scores', 'pattern_scores', 'beat_q', 'sep_framewise']
TRANSLATORS = ['validfuncs']
NOT_COVERED = ('exceptions raised inside NumPy/SciPy for values the models treat as ordinary (overflow, NaN inputs, object dtypes); metrics '
               'without a value model are covered at the entry-point level by the oracle only (sampling); the matcher model is total '
               '(bipartite_match_total: it never runs out of its fuel)')
ASSUMPTIONS = ['shape descriptor arr = (ndim, shape, data) stands for NumPy arrays in the validator models']


def sweep(rng, n):
    from harness.oracles import validity as O
    fs = O.search(rng, max(1, n // 60)) or []
    return [f for f in fs if ALL.is_known(f) is None]


oracle_search = propgen.budgeted([sweep])
ORACLE_BUDGET = {'quick': 40, 'thorough': 400}


def _still(cause):
    """a listed family is still failing if at least one of its recorded combinations still fails on the real code"""
    def run():
        from harness.oracles import validity as O
        if hasattr(O, 'replay_known'):
            return bool(O.replay_known(cause))
        return True
    return run


def _zero_d_fails():
    import numpy as np
    from mir_eval import segment, hierarchy, melody
    out = []
    for fn, args in ((segment.validate_boundary, (np.array(3.0), np.array([[0.0, 1.0]]), False)),
                     (hierarchy.validate_hier_intervals, ([np.array(3.0)],)),
                     (melody.validate_voicing, (np.array(0.5), np.array(0.5)))):
        try:
            fn(*args)
            out.append('returned')
        except ValueError:
            out.append('ValueError')
        except Exception as e:  # noqa
            out.append(type(e).__name__)
    return out == ['TypeError', 'TypeError', 'IndexError']


REFUTED = [
    {'theorem': 'C14_boundary_0d_raises_TypeError_refuted', 'function': 'segment.validate_boundary / hierarchy.validate_hier_intervals / melody.validate_voicing',
     'witness': 'a 0-dimensional array (np.array(3.0)) in place of the intervals / voicing array', 'still_fails': _zero_d_fails},
]


oracle_at = propgen.point_oracle(ID)      # the property's point checks at and around the mismatching input (harness/oracles/at_point.py)


def diagnose(b):
    import random
    return sweep(random.Random(core.seed() + 37), 400)[:2]


def known_match(f, known):
    return ALL.is_known(f)


MANIFEST = {
    'text': 'Theorems for every validator of the library (shared and per task): it accepts exactly the inputs satisfying the documented '
            'convention (a boolean predicate written from the docstrings, over a shape-aware array descriptor so that "2-d" and "not n-by-2" '
            'have content) and raises only ValueError / InvalidChord; for every modelled metric: it raises ValueError exactly when its '
            'validator does and returns a result otherwise. Conventions that the code does not enforce are proved refuted (negative '
            'frequencies, single-level hierarchies, voicing_recall). An entry-point oracle (236 degenerate valid shapes, 372 single-fault '
            'corruptions over all 14 tasks) found 17 families of gaps, listed as known findings.',
    'design_ref': 'DESIGN.md section 6, C14',
    'level_note': 'Trusted: Coq kernel + vm_compute; correspondence harness (validators unit: tag-level, every validator model against the real '
                  'validator on valid shapes and single-fault corruptions). Partial: entry points without a value model are covered by the oracle only.',
    'technique': 'Coq proof (validator <-> documented convention; validators first) on Gallina models of all validators; tag-level model/code correspondence by vm_compute; entry-point oracle for diagnosis',
}
