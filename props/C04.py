"""C04 — Event, frame and note metrics equal their published definitions."""
from lib import core, propgen
from harness.oracles import all as ALL

ID = 'C04'
UNITS = ['match_events', 'event_metrics', 'note_matching', 'transcription_scores', 'melody_metrics', 'multipitch_metrics', 'multipitch_resample', 'key_score', 'pattern_scores', 'alignment_scores', 'tempo_detection', 'beat_q', 'beat_ig', 'melody_resample', 'beat_ig_num']
TRANSLATORS = ['defaults', 'tables', 'scalarfuncs', 'vecfuncs', 'wrapfuncs', 'beatfuncs', 'patternfuncs', 'notefuncs', 'corefuncs', 'framefuncs']
NOT_COVERED = 'Partial: Goto and continuity are their own (procedural) definitions (now tied by translation, BeatTie*.v); P-score and the information-gain histogram are tied by correspondence only; the Gaussian of Cemgil is an arbitrary function g with 0 <= g <= 1, g 0 = 1; the entropy of information gain is a Reals formula (K-L divergence from uniform) tied numerically inside Coq; default values are tied by the translator (defaults_as_documented).'
ASSUMPTIONS = ['exact-arithmetic lattices for the correspondence (DESIGN.md section 2.1); NumPy/SciPy primitives as modelled per module']

oracle_search = propgen.budgeted([ALL.for_property(ID)])


oracle_at = propgen.chained(propgen.point_oracle(ID), propgen.definitional_oracle_at(['match_events', 'event_metrics', 'note_matching', 'transcription_scores', 'melody_metrics', 'multipitch_metrics', 'multipitch_resample', 'key_score', 'pattern_scores', 'alignment_scores', 'tempo_detection', 'beat_q', 'beat_ig'], 'equals the value prescribed by the published definition'))


def diagnose(b):
    import importlib
    import inspect
    import random
    out = []
    res, log = core.coq_eval(['ME.Model.DefaultsSpec', 'ME.Gen.Defaults'], ['first_wrong_default signature_defaults',
                                                                             'first_inconsistent_docstring signature_defaults docstring_defaults'], scope='string_scope')
    if res and res[0].startswith('Some'):
        import re
        m = re.findall(r'"([^"]*)"', res[0])
        if len(m) == 2:
            mod, fn = m[0].split('.', 1)
            try:
                d = inspect.signature(getattr(importlib.import_module('mir_eval.' + mod), fn)).parameters[m[1]].default
            except Exception as e:  # noqa
                d = 'unavailable: %s' % type(e).__name__
            out.append({'function': 'mir_eval.' + m[0], 'relation': 'the default value of a parameter is the documented one', 'input': {'parameter': m[1]},
                        'observed': repr(d), 'why': 'Model/DefaultsSpec.v documents a different default; calling without the keyword now uses %r' % (d,)})
    return out + ALL.for_property(ID)(random.Random(core.seed() + 17), 300)[:2]


def known_match(f, known):
    return ALL.is_known(f)


REFUTED = []

MANIFEST = {
    'text': 'Refinement theorems: the algorithmic model equals a declarative definition: hits = size of a maximum matching of the stated tolerance predicate (events, notes), the five melody measures = sum-over-frames formulas, multipitch accounting and nearest-frame resampling, key table by kernel computation, tempo / alignment / pattern scores written out on their definitions.',
    'design_ref': 'DESIGN.md section 6, C04',
    'level_note': 'Trusted: Coq kernel + vm_compute; correspondence harness per modelled metric; NumPy/SciPy primitives as modelled. ' + 'Partial: Goto and continuity are their own (procedural) definitions (now tied by translation, BeatTie*.v); P-score and the information-gain histogram are tied by correspondence only; the Gaussian of Cemgil is an arbitrary function g with 0 <= g <= 1, g 0 = 1; the entropy of information gain is a Reals formula (K-L divergence from uniform) tied numerically inside Coq; default values are tied by the translator (defaults_as_documented).',
    'technique': 'Coq proof on Gallina models of the task metrics (maximum-matching size lemmas, exact rational arithmetic); model/code correspondence by vm_compute',
}
