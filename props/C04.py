"""C04 — Event, frame and note metrics equal their published definitions."""
from lib import core, propgen
from harness.oracles import all as ALL

ID = 'C04'
UNITS = ['match_events', 'event_metrics', 'note_matching', 'transcription_scores', 'melody_metrics', 'multipitch_metrics', 'multipitch_resample', 'key_score', 'pattern_scores', 'alignment_scores', 'tempo_detection', 'beat_q', 'beat_ig']
TRANSLATORS = []
NOT_COVERED = 'Partial: Goto and continuity are their own (procedural) definitions, tied by correspondence only; the Gaussian of Cemgil and the entropy of information gain are outside the exact model; default parameter values are not yet tied by the translator.'
ASSUMPTIONS = ['exact-arithmetic lattices for the correspondence (DESIGN.md section 2.1); NumPy/SciPy primitives as modelled per module']

oracle_search = propgen.budgeted([ALL.for_property(ID)])


def oracle_at(unit, case, impl):
    return None


def diagnose(b):
    import random
    return ALL.for_property(ID)(random.Random(core.seed() + 17), 300)[:2]


def known_match(f, known):
    return ALL.is_known(f)


REFUTED = []

MANIFEST = {
    'text': 'Refinement theorems: the algorithmic model equals a declarative definition: hits = size of a maximum matching of the stated tolerance predicate (events, notes), the five melody measures = sum-over-frames formulas, multipitch accounting and nearest-frame resampling, key table by kernel computation, tempo / alignment / pattern scores written out on their definitions.',
    'design_ref': 'DESIGN.md section 6, C04',
    'level_note': 'Trusted: Coq kernel + vm_compute; correspondence harness per modelled metric; NumPy/SciPy primitives as modelled. ' + 'Partial: Goto and continuity are their own (procedural) definitions, tied by correspondence only; the Gaussian of Cemgil and the entropy of information gain are outside the exact model; default parameter values are not yet tied by the translator.',
    'technique': 'Coq proof on Gallina models of the task metrics (maximum-matching size lemmas, exact rational arithmetic); model/code correspondence by vm_compute',
}
