"""C20 — Annotation files load back to exactly what they encode."""
from lib import core, propgen
from harness.oracles import all as ALL

ID = 'C20'
UNITS = ['io_delimited', 'io_wrappers']
TRANSLATORS = ['iofuncs']
NOT_COVERED = ('universal-newline translation of \\r by open(path), file encodings and file-system errors (Python runtime; sampled only); float() '
               'is abstract in the theorems (round-trip hypothesis conv (show x) = Some x, validated per sampled float, bit-identical); delimiter '
               'regexes other than c+ / single characters fail closed in the model')
ASSUMPTIONS = ['re.split / str.strip / str.isspace as modelled (the whitespace set was enumerated over all code points); float(repr(x)) == x in CPython']


def sweep(rng, n):
    import mir_eval.io as M
    from harness.oracles import io as O
    fs = O.search(M, rng, budget=max(5, n // 3))
    fs = fs if isinstance(fs, list) else ([fs] if fs else [])
    return [f for f in fs if ALL.is_known(f) is None]


oracle_search = propgen.budgeted([sweep])


oracle_at = propgen.chained(propgen.point_oracle(ID), propgen.definitional_oracle_at(['io_delimited', 'io_wrappers'], 'the loader returns exactly what the file encodes / raises as specified'))


def diagnose(b):
    import random
    return sweep(random.Random(core.seed() + 31), 600)[:2]


def known_match(f, known):
    return ALL.is_known(f)


MANIFEST = {
    'text': 'Theorems on a model of io.load_delimited (line iteration, comment regex on the raw line, strip, re.split with maxsplit = n-1, '
            'per-column conversion, 1-based row numbers) and of the ten loaders: round trip for every documented delimiter with interleaved '
            'comment lines, labels with internal delimiters in the last column; wrong column count / unparsable number raise ValueError carrying '
            'the row; wrappers pass exceptions through and turn convention violations into warnings, with the documented exceptions for '
            'tempo/key; load_patterns and load_tempo raise ValueError only. Tied by two correspondence units (StringIO and real paths, floats bit-identical).',
    'design_ref': 'DESIGN.md section 6, C20',
    'level_note': 'Trusted: Coq kernel + vm_compute; correspondence harness; Python string/regex primitives as modelled; float parsing abstract.',
    'technique': 'Coq proof (round-trip and error theorems over an abstract number parser) on a Gallina model of the loaders; model/code correspondence by vm_compute',
}
