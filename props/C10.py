"""C10 — Chord labels: total parsing, sound encoding, split/join round trip."""
import time
from lib import core

ID = 'C10'
UNITS = ['chord_label']
TRANSLATORS = ['chordre', 'tables', 'chordparse']
NOT_COVERED = ('non-str labels; characters outside the grammar alphabet are rejected by both regexes by the verified lemma '
               'deriv_foreign (the Python side is sampled); the split/join round trip is stated for labels other than N and X '
               '(split("X") yields root "X", which join cannot re-validate; the property scopes the clause to labels other than N/X)')
ASSUMPTIONS = ['Python str.split/strip/count/lower and set de-duplication as modelled; re.match semantics of ^, $ and \\Z as rendered by the translator']
FIXED = [{'id': 'C10-trailing-newline', 'theorem': 'C10_validate_accepts_exactly_harte', 'label': 'C\n'}]


def _C():
    from mir_eval import chord
    return chord


def oracle_at(unit, case, impl):
    from harness.oracles import chord as O
    return O.check_label(_C(), case)


def diagnose(b):
    """A broken obligation over generated data: ask the verified decision procedures for a witness."""
    from harness.oracles import chord as O
    C = _C()
    out = []
    res, log = core.coq_eval(['ME.Model.Regex', 'ME.Model.ChordParse', 'ME.Gen.ChordRe'], ['equiv 4000 chord_re harte'])
    if res and res[0].startswith('Differ'):
        w = ''.join(chr(c) for c in core.coq_nat_list(res[0]))
        f = O.check_label(C, w)
        if f:
            f['from'] = 'distinguishing string returned by the verified equivalence checker'
            out.append(f)
    res, log = core.coq_eval(['ME.Model.ChordParse', 'ME.Gen.ChordTables', 'ME.Proofs.ChordQualities'], ['first_bad_quality', 'unknown_quality', 'first_bad_redux']) \
        if not out else (None, '')
    # ChordQualities may itself not compile any more; fall back to the Python copy of the documented table
    for q in O.QUALITY_DEGREES:
        f = O.check_quality(C, q)
        if f:
            out.append(f)
            break
    return out


def oracle_search(rng, budget, tier):
    from harness.oracles import chord as O
    from harness.units.chord_label import UNIT
    C = _C()
    t0 = time.time()
    n = 0
    for q in O.QUALITY_DEGREES:
        n += 1
        f = O.check_quality(C, q)
        if f:
            return [f], n
    # parsing / encoding must not depend on earlier calls (caches, edited tables): the order-independence battery of C15, chord calls only
    try:
        from props import C15
        for f in C15.sweep_module_state(rng, 1):
            if f.get('function', '').startswith('chord.'):
                f = dict(f)
                f['relation'] = 'split / encode / encode_many results do not depend on earlier calls'
                return [f], n + 1
    except Exception:  # noqa: the battery is an extra, never a reason to crash the search
        pass
    cases = core.corpus_cases(UNIT) + UNIT.exhaustive(tier) + UNIT.gen(rng, 4000 if tier == 'quick' else 40000)
    for c in cases:
        if time.time() - t0 > budget:
            break
        n += 1
        f = O.check_label(C, c)
        if f:
            return [f], n
    return [], n


def known_match(f, known):
    return None


MANIFEST = {
    'text': 'Theorems for all strings: CHORD_RE (translated from the source on every run) accepts exactly the documented Harte grammar '
            '(verified bisimulation checker, equiv_sound); split/encode/join return or raise InvalidChord and nothing else; every encoding is '
            'sound (ranges, 0/1 bitmap containing the bass, sentinels); QUALITIES/REDUX rows equal their documented interval lists. The parser '
            'model is tied to chord.py by a per-label correspondence (validate, split x2, encode x4, join round trip x2) evaluated in Coq.',
    'design_ref': 'DESIGN.md section 6, C10',
    'level_note': 'Trusted: Coq kernel + vm_compute; translator (ast, re._parser; rendering of ^ $ \\Z); correspondence harness; Python string '
                  'semantics as modelled. The split/join round trip is a theorem only if Proofs/ChordRoundTrip.v is present, otherwise tied by the correspondence unit.',
    'technique': 'Coq proof: verified regex equivalence checker on the translated CHORD_RE + structural proofs about a Gallina model of the parser; model/code correspondence by vm_compute',
}
