"""C12 — Interval scores are duration-weighted and blind to how time is cut up."""
from lib import core, propgen
from harness.oracles import all as ALL

ID = 'C12'
UNITS = ['weighted_accuracy', 'chord_segmentation', 'chord_evaluate', 'merge_intervals', 'interpolate_intervals', 'hier_measures', 'seg_cluster_q']
TRANSLATORS = ['chordre', 'tables', 'vecfuncs', 'wrapfuncs', 'intervalfuncs', 'corefuncs', 'hierfuncs']
NOT_COVERED = ('float summation order (the property grants 1e-9); the entropic segment scores are covered through the sampling invariance '
               '(identical frame labels) rather than per score; the T-measure is boundary-based and outside the property')
ASSUMPTIONS = ['NumPy primitives as modelled in Intervals / ChordPipeline']


def sweep(rng, n):
    from mir_eval import chord as C, segment as S, hierarchy as H
    from harness.oracles import recut as O
    out = O.search(C, S, H, rng, budget=max(3, n // 10))
    out = out if isinstance(out, list) else ([out] if out else [])
    return [f for f in out if ALL.is_known(f) is None]


oracle_search = propgen.budgeted([sweep])


oracle_at = propgen.point_oracle(ID)      # the property's point checks at and around the mismatching input (harness/oracles/at_point.py)


def diagnose(b):
    import random
    return sweep(random.Random(core.seed() + 23), 400)[:2]


def known_match(f, known):
    return ALL.is_known(f)


MANIFEST = {
    'text': 'Theorems: weighted_accuracy is the weighted mean over comparable rows, invariant under positive rescaling and under splitting a row; '
            'cutting an interval keeps label_at and hence every frame sample; merge_labeled_intervals of a cut annotation refines the old merge '
            'with the same labels; adjust_intervals commutes with cutting (also at the crop points); merge_chord_intervals fuses the pieces; hence '
            'all 15 chord.evaluate scores (and the exception raised, if any) are unchanged - end to end, for every cut of a reference or '
            '(time-ordered) estimate interval; segment validation/scores and the hierarchy L-measure likewise. Tied by five correspondence units, '
            'the chord_evaluate unit carrying a re-cut twin per case.',
    'design_ref': 'DESIGN.md section 6, C12',
    'level_note': 'Trusted: Coq kernel + vm_compute; translator for chord tables/regex; correspondence harness; NumPy primitives as modelled.',
    'technique': 'Coq proof (refinement relation between merges of cut annotations, weighted-mean algebra) on Gallina models of the chord pipeline and interval helpers; model/code correspondence by vm_compute',
}
