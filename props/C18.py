"""C18 — Multipitch error accounting is exhaustive and consistent."""
import numpy as np
from lib import core, propgen

ID = 'C18'
UNITS = ['multipitch_metrics', 'multipitch_resample']
TRANSLATORS = ['vecfuncs', 'wrapfuncs', 'framefuncs']
NOT_COVERED = ('frequencies_to_midi (log2) is a parameter of the model (the unit feeds it the implementation\'s own Hz->MIDI table); unsorted time '
               'bases passed directly to resample_multipitch; the matcher model is total (bipartite_match_total)')
ASSUMPTIONS = ['scipy interp1d(kind="nearest") = left searchsorted on midpoints, as observed and modelled; np.allclose constants as exact doubles']


def _mp():
    from mir_eval import multipitch
    return multipitch


def _neg_freq_fails():
    mp = _mp()
    a = (np.array([0.]), [np.array([-100.])], np.array([0.]), [np.array([-200.])])
    mp.validate(*a)          # accepted
    m = mp.metrics(*a)
    return m[0] == 1.0 and m[7] == 0.0      # raw precision 1, chroma precision 0


def _allclose_fails():
    mp = _mp()
    m = mp.metrics(np.array([2000., 2000.015625]), [np.array([440.]), np.array([880.])],
                   np.array([2000.015625, 2000.03125]), [np.array([880.]), np.array([440.])])
    return m[0] == 0.0 and m[7] == 1.0      # not resampled: raw precision 0


REFUTED = [
    {'theorem': 'C18_chroma_ge_raw_fails_for_negative_frequencies_refuted', 'function': 'multipitch.metrics',
     'witness': 'ref_freqs=[[-100]], est_freqs=[[-200]] at t=[0]', 'still_fails': _neg_freq_fails},
    {'theorem': 'C18_differing_timebase_not_resampled_refuted', 'function': 'multipitch.metrics',
     'witness': 'ref_time=[2000, 2000.015625], est_time=ref_time+1/64', 'still_fails': _allclose_fails},
]


def sweep(rng, n):
    from harness.oracles import multipitch as O
    return O.search(rng, max(10, n // 4), include_known=False)


oracle_search = propgen.budgeted([sweep])


oracle_at = propgen.chained(propgen.point_oracle(ID), propgen.definitional_oracle_at(['multipitch_metrics', 'multipitch_resample'], 'error accounting / nearest-frame resampling as specified'))


def diagnose(b):
    import random
    from harness.oracles import multipitch as O
    return O.search(random.Random(core.seed() + 3), 300, include_known=False)[:1]


def known_match(f, known):
    for k in known:
        if k.get('status') == 'finding' and k.get('relation') == f.get('relation') and k.get('function') == f.get('function'):
            pat = k.get('pattern')
            if pat == 'negative-frequency' and any(x < 0 for fr in (f.get('input') or [[], [[]]])[1] for x in fr):
                return k
    return None


MANIFEST = {
    'text': 'Theorems on the model of multipitch.metrics: E_tot = E_sub + E_miss + E_fa, all errors >= 0, accuracy <= min(P, R) for raw and chroma on '
            'every successful call; per-frame TP <= min(#ref, #est) and chroma TP >= raw TP (for non-negative frequencies) through the verified '
            'maximum-matching size; nearest-frame resampling specified exactly (midpoint tie rule, empty frames out of range) and the exact '
            'condition under which metrics() resamples. Two clauses are refuted on the faithful model with witnesses replayed on the code '
            '(known findings). Model tied to the code by two correspondence units (14 scores, TP arrays, resampled frames).',
    'design_ref': 'DESIGN.md section 6, C18',
    'level_note': 'Trusted: Coq kernel + vm_compute; correspondence harness; the Hz->MIDI conversion is an uninterpreted parameter; scipy/NumPy '
                  'primitives as modelled. Counts are stated "whenever the matcher model returns"; that it always returns is bipartite_match_total (C05).',
    'technique': 'Coq proof on a Gallina model of multipitch.metrics / resample_multipitch (integer accounting, max-matching size lemmas); model/code correspondence by vm_compute',
}
