"""C05 — hit counts come from a valid, maximum one-to-one matching."""
import itertools
from lib import core

ID = 'C05'
UNITS = ['bipartite_match']
TRANSLATORS = []
NOT_COVERED = ('termination of the model within its fuel (S|g| phases) is observed in every correspondence run, not proved; '
               'float rounding of est +/- window off the exact lattice')
ASSUMPTIONS = ['dict insertion order of CPython >= 3.7 (the model reproduces the returned dict including its order)']


def brute_max(g):
    """Maximum matching size of {u: [v...]} by DFS augmenting (Kuhn) - independent of mir_eval."""
    match = {}

    def aug(u, seen):
        for v in g.get(u, []):
            if v in seen:
                continue
            seen.add(v)
            if v not in match or aug(match[v], seen):
                match[v] = u
                return True
        return False
    return sum(1 for u in g if aug(u, set()))


def check_matching(g, m):
    """m: {v: u}. Returns None when valid and maximum, else a description."""
    if len(set(m.values())) != len(m):
        return 'an item of the first side is used twice'
    for v, u in m.items():
        if v not in g.get(u, []):
            return 'pair (%r,%r) is not a feasible pair' % (u, v)
    if len(m) < brute_max(g):
        return 'a larger matching exists (%d > %d)' % (brute_max(g), len(m))
    return None


def oracle_at(unit, case, impl):
    if unit == 'bipartite_match':
        g = {u: list(vs) for u, vs in case}
        if impl[0] != 'ok':
            return {'function': 'util._bipartite_match', 'relation': 'returns a matching', 'input': case, 'observed': impl}
        why = check_matching(g, {v: u for v, u in impl[1]})
        if why:
            return {'function': 'util._bipartite_match', 'relation': 'valid maximum matching', 'input': case,
                    'observed': impl, 'why': why}
    return None


def oracle_search(rng, budget, tier):
    import time
    from harness.units.bipartite_match import UNIT
    t0 = time.time()
    found, n = [], 0
    cases = UNIT.exhaustive('quick') + UNIT.gen(rng, 3000)
    for c in cases:
        if time.time() - t0 > budget:
            break
        n += 1
        f = oracle_at('bipartite_match', c, UNIT.run(c))
        if f:
            found.append(f)
            break
    return found, n


def known_match(f, known):
    return None


MANIFEST = {
    'text': 'Theorem (all graphs, no size bound): whenever the Gallina transcription of util._bipartite_match returns, the result is a '
            'one-to-one set of feasible pairs and no larger one exists (Hopcroft-Karp augmentation/layering invariants + Koenig cover), '
            'and its size is the declarative maximum max_size, which is invariant under reordering. The model is tied to the code by an '
            'exact-dict correspondence evaluated inside Coq (all graphs up to 3x3/3x4 plus alternating-path-rich random graphs).',
    'design_ref': 'DESIGN.md section 6, C05',
    'level_note': 'Trusted: Coq kernel + vm_compute; the correspondence harness; CPython dict order. Partial correctness: termination within the '
                  'fuel is observed by correspondence, not proved. Graph construction (match_events, match_notes) is tied by correspondence units.',
    'technique': 'Coq proof (invariants + Koenig certificate) on a Gallina model of Hopcroft-Karp; model/code correspondence by vm_compute',
}
