"""C05 — hit counts come from a valid, maximum one-to-one matching."""
from lib import core, propgen
from harness.oracles import all as ALL

ID = 'C05'
UNITS = ['bipartite_match', 'match_events', 'note_matching', 'multipitch_metrics', 'transcription_scores', 'event_metrics']
TRANSLATORS = ['wrapfuncs', 'matchfuncs', 'notefuncs']
NOT_COVERED = ('np.argsort tie order: on references with tied values only sizes and validity are compared, not identical pairs')
ASSUMPTIONS = ['dict insertion order of CPython >= 3.7 (the model reproduces the returned dict including its order)']


def brute_max(g):
    match = {}

    def aug(u, seen):
        for v in g.get(u, []):
            if v in seen:
                continue
            seen.add(v)
            if v not in match or aug(match[v], seen):
                match[v] = u
                return True
        return False
    return sum(1 for u in g if aug(u, set()))


def check_matching(g, m):
    if len(set(m.values())) != len(m):
        return 'an item of the first side is used twice'
    for v, u in m.items():
        if v not in g.get(u, []):
            return 'pair (%r,%r) is not a feasible pair' % (u, v)
    if len(m) < brute_max(g):
        return 'a larger matching exists (%d > %d)' % (brute_max(g), len(m))
    return None


_def_at = propgen.chained(propgen.point_oracle(ID), propgen.definitional_oracle_at(['match_events', 'note_matching'], 'the pairing is a valid maximum matching of the stated predicate'))


def oracle_at(unit, case, impl):
    if unit != 'bipartite_match':
        return _def_at(unit, case, impl)
    if unit == 'bipartite_match':
        g = {u: list(vs) for u, vs in case}
        if impl[0] != 'ok':
            return {'function': 'util._bipartite_match', 'relation': 'returns a matching', 'input': case, 'observed': impl}
        why = check_matching(g, {v: u for v, u in impl[1]})
        if why:
            return {'function': 'util._bipartite_match', 'relation': 'valid maximum matching', 'input': case, 'observed': impl, 'why': why}
    return None


def sweep_graphs(rng, n):
    from harness.units.bipartite_match import UNIT
    out = []
    for c in UNIT.gen(rng, n * 5):
        f = oracle_at('bipartite_match', c, UNIT.run(c))
        if f:
            out.append(f)
            break
    return out


oracle_search = propgen.budgeted([sweep_graphs, ALL.for_property(ID)])


def diagnose(b):
    import random
    r = random.Random(core.seed() + 1)
    return (sweep_graphs(r, 2000) or ALL.for_property(ID)(r, 300))[:2]


def known_match(f, known):
    return ALL.is_known(f)


MANIFEST = {
    'text': 'Theorem (all graphs with distinct keys, no size bound): the Gallina transcription of util._bipartite_match always returns, and the result is a '
            'one-to-one set of feasible pairs and no larger one exists (Hopcroft-Karp augmentation/layering invariants + Koenig cover); its size is the '
            'declarative maximum, invariant under reordering and transposition. On top: the pair enumeration of _fast_hit_windows is exactly the tolerance '
            'predicate (also for unsorted references), the graph has exactly those edges, and match_events / the three note matchers / the multipitch '
            'frame counts are valid maximum matchings of their stated predicates. Tied by exact-dict, hit-set and matching correspondences evaluated in Coq.',
    'design_ref': 'DESIGN.md section 6, C05',
    'level_note': 'Trusted: Coq kernel + vm_compute; the correspondence harness; CPython dict order. Total correctness: the model never runs out of its fuel (bipartite_match_total).',
    'technique': 'Coq proof (invariants + Koenig certificate) on a Gallina model of Hopcroft-Karp and of the graph construction; model/code correspondence by vm_compute',
}
