"""C15 — Evaluation is pure: inputs are never modified, results are repeatable."""
import copy
import importlib
import warnings

import numpy as np
from lib import core, propgen
from harness.oracles import all as ALL

ID = 'C15'
UNITS = ['purity_helpers']
TRANSLATORS = ['writesites']
NOT_COVERED = ('aliasing rules of NumPy/SciPy calls are taken from their documentation (the fresh/alias tables of translator/writesites.py); the '
               'display module (plotting, keeps a matplotlib axes map by design) is outside the property; bit-identical repeatability is '
               'observed by the oracle, the theorem layer excludes its only sources in library code (module state, uninitialised buffers)')
ASSUMPTIONS = ['CPython creates a fresh dict for **kwargs on every call; list slicing and advanced indexing copy; basic array slices are views']


def _same(a, b):
    if isinstance(a, np.ndarray) or isinstance(b, np.ndarray):
        return isinstance(a, np.ndarray) and isinstance(b, np.ndarray) and a.shape == b.shape and a.dtype == b.dtype \
            and np.array_equal(a, b, equal_nan=(a.dtype.kind == 'f'))
    if isinstance(a, (list, tuple)):
        return type(a) is type(b) and len(a) == len(b) and all(_same(x, y) for x, y in zip(a, b))
    if isinstance(a, dict):
        return isinstance(b, dict) and list(a) == list(b) and all(_same(a[k], b[k]) for k in a)
    if isinstance(a, float) and isinstance(b, float) and a != a and b != b:
        return True
    return a == b


def check_call(name, fn, args, kwargs):
    """snapshot the arguments, call twice, compare. Exceptions are someone else's business (C14)."""
    a0, k0 = copy.deepcopy(args), copy.deepcopy(kwargs)
    with warnings.catch_warnings():
        warnings.simplefilter('ignore')
        try:
            r1 = fn(*args, **kwargs)
        except Exception:  # noqa
            r1 = None
        if not _same(list(args), list(a0)) or not _same(kwargs, k0):
            bad = [i for i, (x, y) in enumerate(zip(args, a0)) if not _same(x, y)]
            return {'function': name, 'relation': 'does not modify its arguments', 'input': ALL_desc(a0, k0),
                    'observed': {'changed_positional_arguments': bad, 'after': ALL_desc([args[i] for i in bad], {})}, 'why': ''}
        if r1 is not None:
            try:
                r2 = fn(*copy.deepcopy(a0), **copy.deepcopy(k0))
            except Exception as e:  # noqa
                return {'function': name, 'relation': 'repeatable: bit-identical results', 'input': ALL_desc(a0, k0),
                        'observed': 'second call raised %s' % type(e).__name__, 'why': ''}
            r1c = dict(r1) if hasattr(r1, 'items') else r1
            r2c = dict(r2) if hasattr(r2, 'items') else r2
            if not _same(r1c, r2c):
                return {'function': name, 'relation': 'repeatable: bit-identical results', 'input': ALL_desc(a0, k0),
                        'observed': [repr(r1c)[:200], repr(r2c)[:200]], 'why': ''}
    return None


def ALL_desc(args, kwargs):
    from harness.oracles.evaluate import describe
    return describe(args, kwargs)


def sweep_evaluate(rng, n):
    from harness import gen_inputs as G
    from harness.oracles.evaluate import PROBES
    out = []
    mods = [m for m in G.TASKS if m != 'separation']
    for _ in range(max(2, n // 15)):
        rng.shuffle(mods)                      # interleave the tasks in a different order every round
        for m in mods:
            mod = importlib.import_module('mir_eval.' + m)
            args = list(G.TASKS[m](rng))
            kw = dict(rng.choice(PROBES[m]))
            if m == 'melody' and rng.random() < 0.5:
                kw['est_voicing'] = np.array([float(rng.choice([0, 1, 1])) for _ in args[2]])
                if rng.random() < 0.5:
                    kw['ref_reward'] = np.array([float(rng.choice([0, 1, 1])) for _ in args[0]])
            f = check_call(m + '.evaluate', mod.evaluate, args, kw)
            if f:
                out.append(f)
                return out
    return out


def sweep_helpers(rng, n):
    from mir_eval import util
    out = []
    for _ in range(n):
        k = rng.choice([1, 2, 3, 4])
        b = sorted(rng.sample(range(0, 40), k + 1))
        iv = np.array([[b[i] / 4, b[i + 1] / 4] for i in range(k)])
        labels = ['l%d' % i for i in range(k)]
        pick = lambda: rng.choice([None, rng.choice(b) / 4, rng.randrange(0, 44) / 4])
        for fn, args in ((util.adjust_intervals, [iv, labels, pick(), pick()]), (util.adjust_events, [iv[:, 0].copy(), list(labels), pick(), pick()]),
                         (util.merge_labeled_intervals, [iv, labels, iv.copy(), list(labels)]), (util.sort_labeled_intervals, [iv, labels])):
            f = check_call('util.' + fn.__name__, fn, args, {})
            if f:
                out.append(f)
                return out
    return out


def _more_sweeps():
    try:
        from harness.oracles import purity as P
        if hasattr(P, 'sweep'):
            return [lambda rng, n: [f for f in (P.sweep(rng, max(1, n // 40)) or []) if ALL.is_known(f) is None]]
    except Exception:  # noqa
        pass
    return []


oracle_search = propgen.budgeted([sweep_helpers, sweep_evaluate] + _more_sweeps())
ORACLE_BUDGET = {'quick': 30, 'thorough': 300}


def oracle_at(unit, case, impl):
    return None


def diagnose(b):
    import random
    r = random.Random(core.seed() + 29)
    return (sweep_helpers(r, 300) or sweep_evaluate(r, 300))[:2]


def known_match(f, known):
    return ALL.is_known(f)


MANIFEST = {
    'text': 'Layer 1 (decidable obligations over generated data): a flow-sensitive may-alias analysis of every function of the 17 non-plotting '
            'modules is re-run on /repo on every check; Coq verifies that every in-place write goes to an object allocated by the function itself '
            '(or its **kwargs dict) apart from 5 individually justified sites, that nothing writes to module-level objects, and that np.empty '
            'buffers are stored on both branches inside loops. Layer 2 (Proofs/HeapSound.v when present): soundness of that classification on a '
            'heap semantics and heap models of the anchored helpers. Snapshot-and-repeat oracle over evaluate() of all tasks and the util helpers.',
    'design_ref': 'DESIGN.md section 6, C15',
    'level_note': 'Trusted: Coq kernel + vm_compute; the translator\'s alias analysis and its fresh/alias tables for NumPy/SciPy calls; CPython semantics '
                  'of **kwargs, slicing and string immutability. Partial: purity is a theorem about the translated write sites, not about NumPy internals.',
    'technique': 'Coq-checked decidable classification of translator-generated write sites (alias analysis re-run on every check) + heap-semantics soundness theorem; snapshot oracle for diagnosis',
}
