"""C15 — Evaluation is pure: inputs are never modified, results are repeatable."""
import copy
import os
import importlib
import warnings

import numpy as np
from lib import core, propgen
from harness.oracles import all as ALL

ID = 'C15'
UNITS = ['purity_helpers']
TRANSLATORS = ['writesites', 'intervalfuncs', 'framefuncs']
NOT_COVERED = ('aliasing rules of NumPy/SciPy calls are taken from their documentation (the fresh/alias tables of translator/writesites.py); the '
               'display module (plotting, keeps a matplotlib axes map by design) is outside the property; bit-identical repeatability is '
               'observed by the oracle, the theorem layer excludes its only sources in library code (module state, uninitialised buffers)')
ASSUMPTIONS = ['CPython creates a fresh dict for **kwargs on every call; list slicing and advanced indexing copy; basic array slices are views']


def _same(a, b):
    if isinstance(a, np.ndarray) or isinstance(b, np.ndarray):
        return isinstance(a, np.ndarray) and isinstance(b, np.ndarray) and a.shape == b.shape and a.dtype == b.dtype \
            and np.array_equal(a, b, equal_nan=(a.dtype.kind == 'f'))
    if isinstance(a, (list, tuple)):
        return type(a) is type(b) and len(a) == len(b) and all(_same(x, y) for x, y in zip(a, b))
    if isinstance(a, dict):
        return isinstance(b, dict) and list(a) == list(b) and all(_same(a[k], b[k]) for k in a)
    if isinstance(a, float) and isinstance(b, float) and a != a and b != b:
        return True
    return a == b


def check_call(name, fn, args, kwargs):
    """snapshot the arguments, call twice, compare. Exceptions are someone else's business (C14)."""
    a0, k0 = copy.deepcopy(args), copy.deepcopy(kwargs)
    with warnings.catch_warnings():
        warnings.simplefilter('ignore')
        try:
            r1 = fn(*args, **kwargs)
        except Exception:  # noqa
            r1 = None
        if not _same(list(args), list(a0)) or not _same(kwargs, k0):
            bad = [i for i, (x, y) in enumerate(zip(args, a0)) if not _same(x, y)]
            return {'function': name, 'relation': 'does not modify its arguments', 'input': ALL_desc(a0, k0),
                    'observed': {'changed_positional_arguments': bad, 'after': ALL_desc([args[i] for i in bad], {})}, 'why': ''}
        if r1 is not None:
            try:
                r2 = fn(*copy.deepcopy(a0), **copy.deepcopy(k0))
            except Exception as e:  # noqa
                return {'function': name, 'relation': 'repeatable: bit-identical results', 'input': ALL_desc(a0, k0),
                        'observed': 'second call raised %s' % type(e).__name__, 'why': ''}
            r1c = dict(r1) if hasattr(r1, 'items') else r1
            r2c = dict(r2) if hasattr(r2, 'items') else r2
            if not _same(r1c, r2c):
                return {'function': name, 'relation': 'repeatable: bit-identical results', 'input': ALL_desc(a0, k0),
                        'observed': [repr(r1c)[:200], repr(r2c)[:200]], 'why': ''}
    return None


def ALL_desc(args, kwargs):
    from harness.oracles.evaluate import describe
    return describe(args, kwargs)


def sweep_evaluate(rng, n):
    from harness import gen_inputs as G
    from harness.oracles.evaluate import PROBES
    out = []
    mods = [m for m in G.TASKS if m != 'separation']
    for _ in range(max(2, n // 15)):
        rng.shuffle(mods)                      # interleave the tasks in a different order every round
        for m in mods:
            mod = importlib.import_module('mir_eval.' + m)
            args = list(G.TASKS[m](rng))
            kw = dict(rng.choice(PROBES[m]))
            if m == 'melody' and rng.random() < 0.5:
                kw['est_voicing'] = np.array([float(rng.choice([0, 1, 1])) for _ in args[2]])
                if rng.random() < 0.5:
                    kw['ref_reward'] = np.array([float(rng.choice([0, 1, 1])) for _ in args[0]])
            f = check_call(m + '.evaluate', mod.evaluate, args, kw)
            if f:
                out.append(f)
                return out
    return out


def sweep_helpers(rng, n):
    from mir_eval import util
    out = []
    for _ in range(n):
        k = rng.choice([1, 2, 3, 4])
        b = sorted(rng.sample(range(0, 40), k + 1))
        iv = np.array([[b[i] / 4, b[i + 1] / 4] for i in range(k)])
        labels = ['l%d' % i for i in range(k)]
        pick = lambda: rng.choice([None, rng.choice(b) / 4, rng.randrange(0, 44) / 4])
        for fn, args in ((util.adjust_intervals, [iv, labels, pick(), pick()]), (util.adjust_events, [iv[:, 0].copy(), list(labels), pick(), pick()]),
                         (util.merge_labeled_intervals, [iv, labels, iv.copy(), list(labels)]), (util.sort_labeled_intervals, [iv, labels])):
            f = check_call('util.' + fn.__name__, fn, args, {})
            if f:
                out.append(f)
                return out
    return out



def _module_state():
    """bit-exact snapshot of every module-level container / array of the (non-plotting) mir_eval modules"""
    import sys
    from harness.oracles import purity as P
    out = {}
    for name, mod in sorted(sys.modules.items()):
        if not name.startswith('mir_eval') or mod is None or name.endswith('display') or name.endswith('sonify'):
            continue
        for k, v in sorted(vars(mod).items()):
            if k.startswith('__') or isinstance(v, type(sys)) or callable(v):
                continue
            if isinstance(v, (dict, list, set, np.ndarray, tuple)):
                out[name + '.' + k] = P.snap(sorted(v, key=repr) if isinstance(v, set) else v)
    return out


RICH_CHORDS = ['C:maj(*3)', 'C:maj(b7)', 'G:sus4(b7)', 'E:(b3,5)', 'A:min(*5,b6)/b3', 'D:7(#9)/5', 'F#:hdim7(*b5)', 'Bb:maj7(9,#11)', 'C:maj', 'A:min7',
               'N', 'X', 'G:7/3', 'C:(1)', 'E:min11', 'Db:aug(9)', 'C:dim7(*bb7)']


def _battery(seed):
    """a reproducible list of calls (name, function, args)"""
    import random
    from harness import gen_inputs as G
    from mir_eval import chord as C
    rng = random.Random(seed)
    labels = list(RICH_CHORDS) + ['A:9', 'D:min11', 'F#:13/5', 'G:maj(9)', 'C:9(*5)', 'G:9', 'E:maj', 'E:maj(9)', 'C/2', 'A:7/6']
    rng.shuffle(labels)
    calls = []
    for l in labels:
        for red in (False, True):
            for strict in (False, True):
                calls.append(('chord.encode', C.encode, (l, red, strict)))
            calls.append(('chord.encode_many', C.encode_many, ([l, 'N', l], red)))
            calls.append(('chord.split', C.split, (l, red)))
    calls.append(('chord.evaluate', C.evaluate, (np.array([[0.0, 1.0], [1.0, 2.5]]), labels[:2], np.array([[0.0, 1.5], [1.5, 2.5]]), labels[2:4])))
    calls.append(('chord.tetrads', C.tetrads, (labels[:6], labels[3:9])))
    calls.append(('chord.sevenths', C.sevenths, (['N', 'D:min7', 'C:maj'], ['N', 'D:min7', 'C:7'])))
    for m in [m for m in G.TASKS if m != 'separation']:
        calls.append((m + '.evaluate', importlib.import_module('mir_eval.' + m).evaluate, tuple(G.TASKS[m](rng))))
    return calls


def _run_battery(calls, order):
    from harness.oracles import purity as P
    out = {}
    for i in order:
        name, fn, args = calls[i]
        with warnings.catch_warnings():
            warnings.simplefilter('ignore')
            try:
                r = fn(*copy.deepcopy(args))
                out[i] = repr(P.snap(dict(r) if hasattr(r, 'items') else r))
            except Exception as e:  # noqa
                out[i] = repr(('raised', type(e).__name__))
    return out


def sweep_module_state(rng, n):
    """results do not depend on the history of earlier calls: a battery of calls (chord encode / encode_many / split with every flag
    combination on labels that exercise table edits and flag-sensitive parsing, chord metrics, evaluate() of every task) is run forwards,
    then backwards in the same process, and in two random orders in FRESH interpreters; every call must return the bit-identical result each
    time. Purely behavioural, so a correct memoisation passes; a table row edited in place, or a cache keyed on too little, does not."""
    import json
    import subprocess
    import sys
    seed = rng.randrange(1 << 30)
    calls = _battery(seed)
    idx = list(range(len(calls)))
    first = _run_battery(calls, idx)
    second = _run_battery(calls, idx[::-1])
    code = ('import json,sys,random\nsys.path.insert(0, %r)\nfrom props import C15\ncalls = C15._battery(%d)\n'
            'order = list(range(len(calls)))\nrandom.Random(int(sys.argv[1])).shuffle(order)\n'
            'print("BATTERY" + json.dumps(C15._run_battery(calls, order)))' % (core.VERIF, seed))
    fresh = []
    for k in (1, 2):       # two fresh interpreters, each with its own random order of the calls
        try:
            pr = subprocess.run([sys.executable, '-c', code, str(seed + k)], capture_output=True, text=True, timeout=120, env=dict(os.environ))
            for line in pr.stdout.split('\n'):
                if line.startswith('BATTERY'):
                    fresh.append({int(k2): v for k2, v in json.loads(line[7:]).items()})
        except Exception:  # noqa
            pass
    for i in idx:
        other = second[i] if first[i] != second[i] else None
        if other is None:
            for t in fresh:
                if t.get(i) is not None and t[i] != first[i]:
                    other = t[i]
        if other is not None:
            name, fn, args = calls[i]
            return [{'function': name, 'relation': 'repeatable: bit-identical results independent of earlier calls',
                     'input': {'call': ALL_desc(list(args), {}), 'position_in_battery': i, 'battery_seed': seed},
                     'observed': [first[i][:300], other[:300]],
                     'why': 'the same call returned different results when the battery was run forwards and then backwards (in this process%s)'
                            % ('' if first[i] != second[i] else ' and in a fresh interpreter')}]
    return []


def sweep_uninitialised(rng, n):
    """results do not depend on uninitialised memory: every evaluate() is run twice with np.empty / np.empty_like handing out buffers
    pre-filled with two different garbage patterns; the results must be bit-identical"""
    from harness import gen_inputs as G
    real_empty, real_empty_like = np.empty, np.empty_like
    out = []

    def patched(fill):
        def empty(shape, dtype=float, *a, **k):
            r = real_empty(shape, dtype, *a, **k)
            try:
                if r.dtype.kind in 'fc':
                    r.fill(fill)
                elif r.dtype.kind in 'iu':
                    r.fill(int(fill) % 97)
                elif r.dtype.kind == 'b':
                    r.fill(bool(int(fill) % 2))
            except Exception:  # noqa
                pass
            return r

        def empty_like(x, *a, **k):
            r = real_empty_like(x, *a, **k)
            try:
                if r.dtype.kind in 'fc':
                    r.fill(fill)
                elif r.dtype.kind in 'iu':
                    r.fill(int(fill) % 97)
            except Exception:  # noqa
                pass
            return r
        return empty, empty_like

    def run(fn, args, fill):
        np.empty, np.empty_like = patched(fill)
        try:
            with warnings.catch_warnings():
                warnings.simplefilter('ignore')
                try:
                    r = fn(*copy.deepcopy(args))
                    return dict(r) if hasattr(r, 'items') else r
                except Exception as e:  # noqa
                    return 'raised ' + type(e).__name__
        finally:
            np.empty, np.empty_like = real_empty, real_empty_like

    mods = [m for m in G.TASKS if m != 'separation']
    for _ in range(max(1, n // 20)):
        for m in mods:
            mod = importlib.import_module('mir_eval.' + m)
            args = list(G.TASKS[m](rng))
            a = run(mod.evaluate, args, 7.0e77)
            b = run(mod.evaluate, args, 3.0)
            if not _same(a, b):
                out.append({'function': m + '.evaluate', 'relation': 'repeatable: bit-identical results (no read of uninitialised memory)',
                            'input': ALL_desc(args, {}), 'observed': [repr(a)[:300], repr(b)[:300]],
                            'why': 'the result changes with the garbage that np.empty hands out'})
                return out
    return out


def _more_sweeps():
    try:
        from harness.oracles import purity as P
        if hasattr(P, 'sweep'):
            return [lambda rng, n: [f for f in (P.sweep(rng, max(1, n // 40)) or []) if ALL.is_known(f) is None]]
    except Exception:  # noqa
        pass
    return []


oracle_search = propgen.budgeted([sweep_module_state, sweep_uninitialised, sweep_helpers, sweep_evaluate] + _more_sweeps())
ORACLE_BUDGET = {'quick': 30, 'thorough': 300}


oracle_at = propgen.point_oracle(ID)      # the property's point checks at and around the mismatching input (harness/oracles/at_point.py)


def diagnose(b):
    import random
    r = random.Random(core.seed() + 29)
    return (sweep_module_state(r, 1) or sweep_uninitialised(r, 200) or sweep_helpers(r, 300) or sweep_evaluate(r, 300))[:2]


def known_match(f, known):
    return ALL.is_known(f)


MANIFEST = {
    'text': 'Layer 1 (decidable obligations over generated data): a flow-sensitive may-alias analysis of every function of the 17 non-plotting '
            'modules is re-run on /repo on every check; Coq verifies that every in-place write goes to an object allocated by the function itself '
            '(or its **kwargs dict) apart from 5 individually justified sites, that nothing writes to module-level objects, and that np.empty '
            'buffers are stored on both branches inside loops. Layer 2 (Proofs/HeapSound.v when present): soundness of that classification on a '
            'heap semantics and heap models of the anchored helpers. Snapshot-and-repeat oracle over evaluate() of all tasks and the util helpers.',
    'design_ref': 'DESIGN.md section 6, C15',
    'level_note': 'Trusted: Coq kernel + vm_compute; the translator\'s alias analysis and its fresh/alias tables for NumPy/SciPy calls; CPython semantics '
                  'of **kwargs, slicing and string immutability. Partial: purity is a theorem about the translated write sites, not about NumPy internals.',
    'technique': 'Coq-checked decidable classification of translator-generated write sites (alias analysis re-run on every check) + heap-semantics soundness theorem; snapshot oracle for diagnosis',
}
