"""C13 — Interval pre-processing preserves the annotation it re-expresses."""
from lib import core, propgen

ID = 'C13'
UNITS = ['adjust_intervals', 'merge_intervals', 'interpolate_intervals', 'boundaries']
TRANSLATORS = ['wrapfuncs', 'intervalfuncs']
NOT_COVERED = ('the float32 sampling grid of intervals_to_samples is a model input off the exact lattice; np.argsort tie order in '
               'sort_labeled_intervals (correspondence claimed for distinct start times only)')
ASSUMPTIONS = ['np.maximum/minimum/argwhere/vstack/unique/searchsorted/round(half-even) as modelled']


def _U():
    from mir_eval import util
    return util


def _witness(name):
    def run():
        from harness.oracles import intervals as O
        for n, f in O.replay_witnesses(_U()):
            if n == name:
                return f is not None
        return False
    return run


REFUTED = [
    {'theorem': 'C13_adjust_all_below_collapse_refuted', 'function': 'util.adjust_intervals',
     'witness': "adjust_intervals([[0,1],[1,2]], ['a','b'], 5, 6)", 'still_fails': _witness('adjust_all_below_collapse_refuted')},
    {'theorem': 'C13_adjust_gap_start_fill_refuted', 'function': 'util.adjust_intervals',
     'witness': "adjust_intervals([[0,1],[3,4]], ['a','b'], 2, 4)", 'still_fails': _witness('adjust_gap_start_fill_refuted')},
    {'theorem': 'C13_adjust_gap_end_fill_refuted', 'function': 'util.adjust_intervals',
     'witness': "adjust_intervals([[0,1],[3,4]], ['a','b'], 0, 2)", 'still_fails': _witness('adjust_gap_end_fill_refuted')},
    {'theorem': 'C13_merge_gap_label_refuted', 'function': 'util.merge_labeled_intervals',
     'witness': "merge_labeled_intervals([[0,1],[2,3]], ['a','b'], [[0,3]], ['c'])", 'still_fails': _witness('merge_gap_label_refuted')},
]


def sweep(rng, n):
    from harness.oracles import intervals as O
    out = O.search(_U(), rng, n, mode='proved', first_only=True)
    for name, f in O.replay_fixed(_U()):
        if f:
            out.append(f)
    return out


oracle_search = propgen.budgeted([sweep])


oracle_at = propgen.chained(propgen.point_oracle(ID), propgen.definitional_oracle_at(['adjust_intervals', 'merge_intervals', 'interpolate_intervals', 'boundaries'], 're-expresses the annotation as specified by label_at'))


def diagnose(b):
    import random
    return sweep(random.Random(core.seed() + 5), 600)[:1]


def known_match(f, known):
    return None


MANIFEST = {
    'text': 'Theorems through the abstraction label_at (label of the interval containing t, the later one at a shared boundary): adjust_intervals '
            'spans [t_min, t_max], stays inside, keeps every label, fills before/after, has positive durations whenever some interval ends after t_min; '
            'merge_labeled_intervals is the common refinement carrying both labels over every output interval and conserves duration; '
            'interpolate_intervals gives each sample its label_at (later interval at a shared boundary, fill outside); boundary round trips. Clauses '
            'that are false of the faithful model are proved refuted with witnesses replayed on the code (known findings).',
    'design_ref': 'DESIGN.md section 6, C13',
    'level_note': 'Trusted: Coq kernel + vm_compute; correspondence harness (4 units, exact Q comparison on lattice inputs with crop/grid points on '
                  'existing boundaries); NumPy primitives as modelled.',
    'technique': 'Coq proof (refinement to the label_at abstraction) on a Gallina model of the interval helpers; model/code correspondence by vm_compute',
}
