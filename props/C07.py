"""C07 — Looser criteria never lower a score; nested criteria are ordered."""
from lib import core, propgen
from harness.oracles import all as ALL

ID = 'C07'
UNITS = ['event_metrics', 'note_matching', 'transcription_scores', 'melody_metrics', 'multipitch_metrics', 'tempo_detection', 'alignment_scores', 'beat_q', 'match_events', 'melody_resample']
TRANSLATORS = ['vecfuncs', 'wrapfuncs', 'beatfuncs', 'notefuncs']
NOT_COVERED = 'all listed nested pairs are theorems.'
ASSUMPTIONS = ['exact-arithmetic lattices for the correspondence (DESIGN.md section 2.1); NumPy/SciPy primitives as modelled per module']

oracle_search = propgen.budgeted([ALL.for_property(ID)])


oracle_at = propgen.point_oracle(ID)      # the property's point checks at and around the mismatching input (harness/oracles/at_point.py)


def diagnose(b):
    import random
    return ALL.for_property(ID)(random.Random(core.seed() + 17), 300)[:2]


def known_match(f, known):
    return ALL.is_known(f)


REFUTED = []

MANIFEST = {
    'text': 'Monotonicity theorems from max_size_mono (windows; onset/pitch/offset tolerances; strict subset of non-strict; with offsets <= without <= onset-only; velocity subset of plain; multipitch raw <= chroma), the folding lemma |d - 1200 floor(d/1200 + 1/2)| <= |d| (raw pitch <= raw chroma), melody tolerance monotonicity, tempo tolerance and both => one, alignment window.',
    'design_ref': 'DESIGN.md section 6, C07',
    'level_note': 'Trusted: Coq kernel + vm_compute; correspondence harness per modelled metric; NumPy/SciPy primitives as modelled. ' + 'all listed nested pairs are theorems.',
    'technique': 'Coq proof on Gallina models of the task metrics (maximum-matching size lemmas, exact rational arithmetic); model/code correspondence by vm_compute',
}
