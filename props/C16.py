"""C16 — Segment labelling scores equal their clustering-index definitions."""
import numpy as np
from lib import core, propgen
from harness.oracles import all as ALL

ID = 'C16'
UNITS = ['seg_cluster_q', 'index_labels', 'seg_entropy_skel', 'seg_entropy_num']
TRANSLATORS = ['scalarfuncs', 'wrapfuncs', 'wrapfuncs2', 'corefuncs']
NOT_COVERED = ('the entropic scores (MI, NMI, AMI, NCE, V) are tied numerically INSIDE Coq (unit seg_entropy_num: |R formula - float| <= 1e-9, AMI 1e-7, '
               'by the interval tactic, kernel-checked) on sampled tables only; the frame grid off dyadic frame sizes')
ASSUMPTIONS = ['util.intervals_to_samples yields the frames the harness constructs (checked per case); scipy sparse contingency as modelled']


def _S():
    from mir_eval import segment
    return segment


def _pairwise_nan():
    iv = np.array([[0, .25], [.25, .5]])
    r = _S().pairwise(iv, ['a', 'b'], iv, ['a', 'b'], frame_size=.25)
    return all(np.isnan(x) for x in r)


REFUTED = [
    {'theorem': 'C16_pairwise_nan_refuted', 'function': 'segment.pairwise', 'witness': "two frames with distinct labels, frame_size=.25",
     'still_fails': _pairwise_nan},
]


def sweep(rng, n):
    from harness import gen_inputs as G
    from harness.oracles import segment_cluster as O
    out = []
    for _ in range(max(5, n // 4)):
        end = rng.choice([2.0, 4.0, 6.0])

        def ann():
            k = int(end / 0.5)
            cuts = sorted(set(rng.sample(range(1, k), min(rng.choice([0, 1, 2, 4]), k - 1))))
            b = [0.0] + [c * 0.5 for c in cuts] + [end]
            return b, [rng.choice(G.SEGLABELS) for _ in range(len(b) - 1)]
        rb, rl = ann()
        eb, el = (rb, list(rl)) if rng.random() < 0.2 else ann()
        f = O.check_annotations(_S(), rb, rl, eb, el, rng.choice([0.25, 0.5]), rng.choice([1.0, 0.5, 2.0]), strict=False)
        if f:
            out.append(f)
            break
    return out


oracle_search = propgen.budgeted([sweep, ALL.for_property(ID)])


_def_at = propgen.chained(propgen.point_oracle(ID), propgen.definitional_oracle_at(['seg_cluster_q', 'index_labels', 'seg_entropy_skel'], 'equals the textbook formula on the contingency table'))


def oracle_at(unit, case, impl):
    if unit == 'seg_cluster_q':
        from harness.oracles import segment_cluster as O
        try:
            f = O.check_case(_S(), case)
            if f:
                return f
        except Exception:
            pass
    return _def_at(unit, case, impl)


def diagnose(b):
    import random
    return sweep(random.Random(core.seed() + 13), 800)[:1]


def known_match(f, known):
    return None


MANIFEST = {
    'text': 'Theorems: the contingency table is the joint frame count; the code\'s agreement-matrix counting equals the C(n,2) sums, so pairwise '
            'P/R/F, Rand and ARI equal their textbook formulas (exact Q), ARI <= 1 and = 1 on identical partitions, swap/symmetry, invariance '
            'under label bijections, case-insensitivity of index_labels; MI symmetric, NCE over/under swap, vmeasure = nce(marginal=True), V = '
            'harmonic mean (R-valued formulas, stdlib real axioms). Tied by three correspondence units (table, Q scores, entropic skeleton).',
    'design_ref': 'DESIGN.md section 6, C16',
    'level_note': 'Trusted: Coq kernel + vm_compute; correspondence harness; for the entropic scores: the standard-library axioms of Reals '
                  '(sig_forall_dec, sig_not_dec, functional_extensionality_dep, classic) as reported by Print Assumptions; numeric agreement of the '
                  'float scores with the formulas is an oracle test.',
    'technique': 'Coq proof on a Gallina model of the frame-clustering metrics (exact Q for pairwise/Rand/ARI, Reals formulas for MI/NCE/V); model/code correspondence by vm_compute',
}
