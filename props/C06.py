"""C06 — Swapping reference and estimate exchanges precision and recall."""
from lib import core, propgen
from harness.oracles import all as ALL

ID = 'C06'
UNITS = ['event_metrics', 'transcription_scores', 'multipitch_metrics', 'seg_cluster_q', 'hier_measures', 'pattern_scores', 'seg_entropy_num', 'note_matching', 'chord_evaluate']
TRANSLATORS = ['wrapfuncs', 'patternfuncs', 'corefuncs']
NOT_COVERED = 'all listed swaps are theorems, including AMI (Reals formula of the expected mutual information, tied numerically inside Coq by seg_entropy_num).'
ASSUMPTIONS = ['exact-arithmetic lattices for the correspondence (DESIGN.md section 2.1); NumPy/SciPy primitives as modelled per module']

oracle_search = propgen.budgeted([ALL.for_property(ID)])


oracle_at = propgen.point_oracle(ID)      # the property's point checks at and around the mismatching input (harness/oracles/at_point.py)


def diagnose(b):
    import random
    return ALL.for_property(ID)(random.Random(core.seed() + 17), 300)[:2]


def known_match(f, known):
    return ALL.is_known(f)


REFUTED = []

MANIFEST = {
    'text': 'Swap theorems from max_size_transpose and the symmetry of each feasibility predicate (beat/onset F, boundary detection and deviation, transcription onset-only and no-offset, multipitch), transpose of the contingency table (pairwise, Rand, ARI, MI, NCE over/under) and of the pattern score matrices, tmeasure precision/recall exchange; a counterexample lemma shows why the offset criterion is excluded.',
    'design_ref': 'DESIGN.md section 6, C06',
    'level_note': 'Trusted: Coq kernel + vm_compute; correspondence harness per modelled metric; NumPy/SciPy primitives as modelled. ' + 'V-measure, NMI/AMI symmetry and chord over/under-segmentation are covered by the oracle only.',
    'technique': 'Coq proof on Gallina models of the task metrics (maximum-matching size lemmas, exact rational arithmetic); model/code correspondence by vm_compute',
}
