#!/venv/bin/python
"""Assemble coq/Properties/Cxx.v from props_spec/Cxx.spec.

A spec file has a header (Coq text up to a line `---`) with the Require/Import/Open Scope commands, then one entry per
line:  <TheoremName> <lemma>   [| comment text].  For each entry the lemma's statement is obtained from Coq itself
(`Check lemma`) and restated verbatim, closed by `exact lemma`, followed by Print Assumptions - so the property file
shows the full statements and can never silently drift from what is proved."""
import os, re, subprocess, sys
HERE = os.path.dirname(os.path.abspath(__file__))
COQ = os.path.join(HERE, 'coq')


def statement(header, lemma):
    src = header + '\nSet Printing Width 110.\nSet Printing Depth 100000.\nCheck @%s.\n' % lemma
    p = os.path.join(HERE, 'build', 'mkprops_%d.v' % os.getpid())
    open(p, 'w').write(src)
    r = subprocess.run(['coqc', '-Q', COQ, 'ME', p], stdout=subprocess.PIPE, stderr=subprocess.STDOUT, text=True, timeout=600)
    for ext in ('.v', '.vo', '.vok', '.vos', '.glob'):
        try: os.remove(p[:-2] + ext)
        except OSError: pass
    if r.returncode != 0:
        raise SystemExit('cannot Check %s:\n%s' % (lemma, r.stdout[-800:]))
    out = r.stdout.strip()
    # warnings (e.g. an overridden notation in an imported file) may precede the answer: take the answer line for this lemma
    short = lemma.split('.')[-1]
    ms = [x for x in re.finditer(r'^(@?[\w.\']+)\s*\n?\s*:\s', out, re.M) if x.group(1).lstrip('@').split('.')[-1] == short]
    m = ms[-1] if ms else None
    if not m:
        raise SystemExit('cannot find the statement of %s in:\n%s' % (lemma, out[-600:]))
    body = out[m.end():]
    body = re.sub(r'\n\s*\n.*', '', body, flags=re.S)
    return '\n'.join(l.rstrip() for l in body.strip().split('\n'))


def main(pid):
    spec = open(os.path.join(HERE, 'props_spec', pid + '.spec')).read()
    header, entries = spec.split('\n---\n', 1)
    out = [header.rstrip(), '']
    for line in entries.split('\n'):
        line = line.rstrip()
        if not line:
            continue
        if line.startswith('#'):
            out.append('(* %s *)' % line[1:].strip())
            continue
        if line.startswith('!'):          # verbatim Coq (Examples, hand-stated theorems)
            out.append(line[1:])
            continue
        main_, _, comment = line.partition('|')
        name, lemma = main_.split()
        st = statement(header, lemma)
        if comment.strip():
            out.append('(* %s *)' % comment.strip())
        out.append('Theorem %s :\n  %s.\nProof. exact (@%s). Qed.\nPrint Assumptions %s.' % (name, st.replace('\n', '\n  '), lemma, name))
    path = os.path.join(COQ, 'Properties', pid + '.v')
    open(path, 'w').write('\n'.join(out) + '\n')
    r = subprocess.run(['coqc', '-Q', COQ, 'ME', path], stdout=subprocess.PIPE, stderr=subprocess.STDOUT, text=True, timeout=900)
    bad = [l for l in r.stdout.split('\n') if l and not l.startswith('Closed under')]
    print(pid, 'rc', r.returncode, 'theorems', sum(1 for l in out if l.startswith('Theorem')))
    if r.returncode != 0 or bad:
        print('\n'.join(bad[:40]))
    return r.returncode


if __name__ == '__main__':
    sys.exit(max(main(p) for p in sys.argv[1:]))
